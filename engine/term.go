package main

// Hash-consed term DAG with constructor-time simplification and SMT-LIB2 emission.

import (
	"fmt"
	"math"
	"strconv"
	"strings"
)

type SortKind uint8

const (
	KBool SortKind = iota
	KBV
	KFP // float64
)

type Sort struct {
	K SortKind
	W int // width for KBV
}

var (
	SBool = Sort{KBool, 0}
	SBV8  = Sort{KBV, 8}
	SBV16 = Sort{KBV, 16}
	SBV32 = Sort{KBV, 32}
	SBV64 = Sort{KBV, 64}
	SFP   = Sort{KFP, 64}
)

func (s Sort) smt() string {
	switch s.K {
	case KBool:
		return "Bool"
	case KBV:
		return "(_ BitVec " + strconv.Itoa(s.W) + ")"
	default:
		return "(_ FloatingPoint 11 53)"
	}
}

type Op uint8

const (
	OConst Op = iota
	OVar
	ONot
	OAnd
	OOr
	OIte
	OEq
	OAdd
	OSub
	OMul
	OUDiv
	OSDiv
	OURem
	OSRem
	OBAnd
	OBOr
	OBXor
	OShl
	OLShr
	OAShr
	ONeg
	OBNot
	OULt
	OULe
	OSLt
	OSLe
	OZExt  // c = new width
	OSExt  // c = new width
	OTrunc // c = new width  (extract low bits)
	OFEq
	OFLt
	OFLe
	OFIsNaN
	OFIsInf
	OFAdd
	OFSub
	OFMul
	OFDiv
	OFNeg
	OSToF // signed bv -> fp
	OUToF
	OFToS // fp -> signed bv (c = width), RTZ
	OFToU
	OUF // uninterpreted function, name + args
)

type Term struct {
	Op   Op
	S    Sort
	Args []*Term
	C    uint64
	Name string
	ID   int
	Dom  []uint64 // for OVar: finite set of possible values (nil = unconstrained); per path
}

type TermStore struct {
	tab   map[string]*Term
	ftab  map[tkey]*Term
	next  int
	tTrue *Term
	tFals *Term
	ufs   map[string]string // UF name -> declaration
}

func NewTermStore() *TermStore {
	ts := &TermStore{tab: map[string]*Term{}, ftab: map[tkey]*Term{}, ufs: map[string]string{}}
	ts.tTrue = ts.mk(OConst, SBool, nil, 1, "")
	ts.tFals = ts.mk(OConst, SBool, nil, 0, "")
	return ts
}

type tkey struct {
	op         Op
	k          SortKind
	w          uint8
	n          uint8
	c          uint64
	name       string
	a0, a1, a2 int32
}

func (ts *TermStore) mk(op Op, s Sort, args []*Term, c uint64, name string) *Term {
	if len(args) <= 3 {
		k := tkey{op: op, k: s.K, w: uint8(s.W), n: uint8(len(args)), c: c, name: name, a0: -1, a1: -1, a2: -1}
		switch len(args) {
		case 3:
			k.a2 = int32(args[2].ID)
			fallthrough
		case 2:
			k.a1 = int32(args[1].ID)
			fallthrough
		case 1:
			k.a0 = int32(args[0].ID)
		}
		if t, ok := ts.ftab[k]; ok {
			return t
		}
		t := &Term{Op: op, S: s, Args: args, C: c, Name: name, ID: ts.next}
		ts.next++
		ts.ftab[k] = t
		return t
	}
	var sb strings.Builder
	sb.Grow(32)
	sb.WriteByte(byte(op))
	sb.WriteByte(byte(s.K))
	sb.WriteByte(byte(s.W))
	sb.WriteString(strconv.FormatUint(c, 36))
	sb.WriteByte('|')
	sb.WriteString(name)
	for _, a := range args {
		sb.WriteByte(',')
		sb.WriteString(strconv.Itoa(a.ID))
	}
	k := sb.String()
	if t, ok := ts.tab[k]; ok {
		return t
	}
	t := &Term{Op: op, S: s, Args: args, C: c, Name: name, ID: ts.next}
	ts.next++
	ts.tab[k] = t
	return t
}

func mask(w int) uint64 {
	if w >= 64 {
		return ^uint64(0)
	}
	return (uint64(1) << uint(w)) - 1
}

func (t *Term) IsConst() bool { return t.Op == OConst }
func (t *Term) IsTrue() bool  { return t.Op == OConst && t.S.K == KBool && t.C == 1 }
func (t *Term) IsFalse() bool { return t.Op == OConst && t.S.K == KBool && t.C == 0 }

// signed value of a BV const
func (t *Term) SVal() int64 {
	w := t.S.W
	v := t.C
	if w < 64 && v&(uint64(1)<<uint(w-1)) != 0 {
		v |= ^mask(w)
	}
	return int64(v)
}

func (ts *TermStore) Bool(b bool) *Term {
	if b {
		return ts.tTrue
	}
	return ts.tFals
}
func (ts *TermStore) BV(w int, v uint64) *Term {
	return ts.mk(OConst, Sort{KBV, w}, nil, v&mask(w), "")
}
func (ts *TermStore) FP(f float64) *Term {
	return ts.mk(OConst, SFP, nil, math.Float64bits(f), "")
}
func (ts *TermStore) Var(name string, s Sort) *Term {
	return ts.mk(OVar, s, nil, 0, name)
}

func (ts *TermStore) Not(a *Term) *Term {
	if a.IsConst() {
		return ts.Bool(a.C == 0)
	}
	if a.Op == ONot {
		return a.Args[0]
	}
	return ts.mk(ONot, SBool, []*Term{a}, 0, "")
}

func (ts *TermStore) And(a, b *Term) *Term {
	if a.IsFalse() || b.IsFalse() {
		return ts.tFals
	}
	if a.IsTrue() {
		return b
	}
	if b.IsTrue() {
		return a
	}
	if a == b {
		return a
	}
	return ts.mk(OAnd, SBool, []*Term{a, b}, 0, "")
}

func (ts *TermStore) Or(a, b *Term) *Term {
	if a.IsTrue() || b.IsTrue() {
		return ts.tTrue
	}
	if a.IsFalse() {
		return b
	}
	if b.IsFalse() {
		return a
	}
	if a == b {
		return a
	}
	return ts.mk(OOr, SBool, []*Term{a, b}, 0, "")
}

func (ts *TermStore) AndN(xs []*Term) *Term {
	r := ts.tTrue
	for _, x := range xs {
		r = ts.And(r, x)
	}
	return r
}

func (ts *TermStore) Ite(c, a, b *Term) *Term {
	if c.IsTrue() {
		return a
	}
	if c.IsFalse() {
		return b
	}
	if a == b {
		return a
	}
	if a.S.K == KBool {
		if a.IsTrue() && b.IsFalse() {
			return c
		}
		if a.IsFalse() && b.IsTrue() {
			return ts.Not(c)
		}
	}
	return ts.mk(OIte, a.S, []*Term{c, a, b}, 0, "")
}

func (ts *TermStore) Eq(a, b *Term) *Term {
	if a == b {
		if a.S.K == KFP {
			// structural identity is fine here: Eq on FP is used as SMT '=' only via FEq for Go ==
			return ts.tTrue
		}
		return ts.tTrue
	}
	if a.IsConst() && b.IsConst() {
		return ts.Bool(a.C == b.C)
	}
	if a.S.K == KBool {
		if a.IsConst() {
			a, b = b, a
		}
		if b.IsTrue() {
			return a
		}
		if b.IsFalse() {
			return ts.Not(a)
		}
	}
	if a.Op == OVar && a.Dom != nil && b.IsConst() {
		if !inDom(a.Dom, b.C) {
			return ts.tFals
		}
		if len(a.Dom) == 1 {
			return ts.tTrue
		}
	}
	if b.Op == OVar && b.Dom != nil && a.IsConst() {
		if !inDom(b.Dom, a.C) {
			return ts.tFals
		}
		if len(b.Dom) == 1 {
			return ts.tTrue
		}
	}
	if a.Op == OVar && b.Op == OVar && a.Dom != nil && b.Dom != nil {
		common := false
		for _, v := range a.Dom {
			if inDom(b.Dom, v) {
				common = true
				break
			}
		}
		if !common {
			return ts.tFals
		}
	}
	// sum/product of small non-negative quantities == 0  <=>  every summand == 0
	// (no wrap-around is possible when the upper bound stays below 2^63)
	if a.S.K == KBV && a.S.W == 64 {
		if a.IsConst() && a.C == 0 {
			a, b = b, a
		}
		if b.IsConst() && b.C == 0 {
			if _, ok := ubound(a); ok {
				switch a.Op {
				case OAdd:
					return ts.And(ts.Eq(a.Args[0], b), ts.Eq(a.Args[1], b))
				case OMul:
					if a.Args[1].IsConst() && a.Args[1].C != 0 {
						return ts.Eq(a.Args[0], b)
					}
					if a.Args[0].IsConst() && a.Args[0].C != 0 {
						return ts.Eq(a.Args[1], b)
					}
				}
			}
		}
	}
	if a.ID > b.ID {
		a, b = b, a
	}
	// (zext x) == const  ->  x == trunc const when const fits
	if b.IsConst() && (a.Op == OZExt) {
		inner := a.Args[0]
		if b.C&^mask(inner.S.W) != 0 {
			return ts.tFals
		}
		return ts.Eq(inner, ts.BV(inner.S.W, b.C))
	}
	if a.IsConst() && (b.Op == OZExt) {
		inner := b.Args[0]
		if a.C&^mask(inner.S.W) != 0 {
			return ts.tFals
		}
		return ts.Eq(inner, ts.BV(inner.S.W, a.C))
	}
	return ts.mk(OEq, SBool, []*Term{a, b}, 0, "")
}

func sext(v uint64, w int) int64 {
	if w < 64 && v&(uint64(1)<<uint(w-1)) != 0 {
		v |= ^mask(w)
	}
	return int64(v)
}

// Bin builds a BV binary arithmetic/bitwise op.
func (ts *TermStore) Bin(op Op, a, b *Term) *Term {
	w := a.S.W
	if a.IsConst() && b.IsConst() {
		x, y := a.C, b.C
		var r uint64
		ok := true
		switch op {
		case OAdd:
			r = x + y
		case OSub:
			r = x - y
		case OMul:
			r = x * y
		case OUDiv:
			if y == 0 {
				ok = false
			} else {
				r = x / y
			}
		case OURem:
			if y == 0 {
				ok = false
			} else {
				r = x % y
			}
		case OSDiv:
			if y == 0 {
				ok = false
			} else {
				sx, sy := sext(x, w), sext(y, w)
				if sy == -1 {
					r = uint64(-sx)
				} else {
					r = uint64(sx / sy)
				}
			}
		case OSRem:
			if y == 0 {
				ok = false
			} else {
				sx, sy := sext(x, w), sext(y, w)
				if sy == -1 {
					r = 0
				} else {
					r = uint64(sx % sy)
				}
			}
		case OBAnd:
			r = x & y
		case OBOr:
			r = x | y
		case OBXor:
			r = x ^ y
		case OShl:
			if y >= uint64(w) {
				r = 0
			} else {
				r = x << y
			}
		case OLShr:
			if y >= uint64(w) {
				r = 0
			} else {
				r = x >> y
			}
		case OAShr:
			sx := sext(x, w)
			if y >= uint64(w) {
				if sx < 0 {
					r = ^uint64(0)
				} else {
					r = 0
				}
			} else {
				r = uint64(sx >> y)
			}
		default:
			ok = false
		}
		if ok {
			return ts.BV(w, r)
		}
	}
	// neutral elements
	switch op {
	case OAdd:
		if a.IsConst() && a.C == 0 {
			return b
		}
		if b.IsConst() && b.C == 0 {
			return a
		}
		// (x + c1) + c2
		if b.IsConst() && a.Op == OAdd && a.Args[1].IsConst() {
			return ts.Bin(OAdd, a.Args[0], ts.BV(w, a.Args[1].C+b.C))
		}
	case OSub:
		if b.IsConst() && b.C == 0 {
			return a
		}
		if a == b {
			return ts.BV(w, 0)
		}
		if b.IsConst() {
			return ts.Bin(OAdd, a, ts.BV(w, -b.C))
		}
	case OMul:
		if a.IsConst() && a.C == 1 {
			return b
		}
		if b.IsConst() && b.C == 1 {
			return a
		}
		if (a.IsConst() && a.C == 0) || (b.IsConst() && b.C == 0) {
			return ts.BV(w, 0)
		}
	case OBAnd:
		if a == b {
			return a
		}
		if (a.IsConst() && a.C == 0) || (b.IsConst() && b.C == 0) {
			return ts.BV(w, 0)
		}
		if a.IsConst() && a.C == mask(w) {
			return b
		}
		if b.IsConst() && b.C == mask(w) {
			return a
		}
	case OBOr, OBXor:
		if a.IsConst() && a.C == 0 {
			return b
		}
		if b.IsConst() && b.C == 0 {
			return a
		}
	case OShl, OLShr, OAShr:
		if b.IsConst() && b.C == 0 {
			return a
		}
	}
	return ts.mk(op, a.S, []*Term{a, b}, 0, "")
}

func (ts *TermStore) Neg(a *Term) *Term {
	if a.IsConst() {
		return ts.BV(a.S.W, -a.C)
	}
	return ts.mk(ONeg, a.S, []*Term{a}, 0, "")
}
func (ts *TermStore) BNot(a *Term) *Term {
	if a.IsConst() {
		return ts.BV(a.S.W, ^a.C)
	}
	return ts.mk(OBNot, a.S, []*Term{a}, 0, "")
}

// Cmp builds OULt/OULe/OSLt/OSLe
func (ts *TermStore) Cmp(op Op, a, b *Term) *Term {
	w := a.S.W
	if a.IsConst() && b.IsConst() {
		switch op {
		case OULt:
			return ts.Bool(a.C < b.C)
		case OULe:
			return ts.Bool(a.C <= b.C)
		case OSLt:
			return ts.Bool(sext(a.C, w) < sext(b.C, w))
		case OSLe:
			return ts.Bool(sext(a.C, w) <= sext(b.C, w))
		}
	}
	if a == b {
		return ts.Bool(op == OULe || op == OSLe)
	}
	// interval reasoning on sums/products of small non-negative quantities
	if w == 64 {
		if ua, ok := ubound(a); ok && b.IsConst() && b.C < 1<<63 {
			if (op == OULt || op == OSLt) && ua < b.C {
				return ts.tTrue
			}
			if (op == OULe || op == OSLe) && ua <= b.C {
				return ts.tTrue
			}
		}
		if ub, ok := ubound(b); ok && a.IsConst() && a.C < 1<<63 {
			if (op == OULt || op == OSLt) && a.C >= ub {
				return ts.tFals
			}
			if (op == OULe || op == OSLe) && a.C > ub {
				return ts.tFals
			}
		}
	}
	if a.Op == OVar && a.Dom != nil && b.IsConst() {
		if r, ok := domCmp(op, a.Dom, b.C, w, false); ok {
			return ts.Bool(r)
		}
	}
	if b.Op == OVar && b.Dom != nil && a.IsConst() {
		if r, ok := domCmp(op, b.Dom, a.C, w, true); ok {
			return ts.Bool(r)
		}
	}
	// comparisons of zero-extended bytes against constants: push down
	if a.Op == OZExt && b.IsConst() {
		in := a.Args[0]
		iw := in.S.W
		bv := b.C
		neg := (op == OSLt || op == OSLe) && sext(bv, w) < 0
		if neg {
			return ts.tFals
		}
		if bv > mask(iw) {
			return ts.tTrue
		}
		uop := op
		if op == OSLt {
			uop = OULt
		} else if op == OSLe {
			uop = OULe
		}
		return ts.Cmp(uop, in, ts.BV(iw, bv))
	}
	if b.Op == OZExt && a.IsConst() {
		in := b.Args[0]
		iw := in.S.W
		av := a.C
		neg := (op == OSLt || op == OSLe) && sext(av, w) < 0
		if neg {
			return ts.tTrue
		}
		if av > mask(iw) {
			return ts.tFals
		}
		uop := op
		if op == OSLt {
			uop = OULt
		} else if op == OSLe {
			uop = OULe
		}
		return ts.Cmp(uop, ts.BV(iw, av), in)
	}
	if a.Op == OZExt && b.Op == OZExt && a.Args[0].S == b.Args[0].S {
		uop := op
		if op == OSLt {
			uop = OULt
		} else if op == OSLe {
			uop = OULe
		}
		return ts.Cmp(uop, a.Args[0], b.Args[0])
	}
	return ts.mk(op, SBool, []*Term{a, b}, 0, "")
}

func (ts *TermStore) ZExt(a *Term, w int) *Term {
	if a.S.W == w {
		return a
	}
	if a.IsConst() {
		return ts.BV(w, a.C)
	}
	return ts.mk(OZExt, Sort{KBV, w}, []*Term{a}, uint64(w), "")
}
func (ts *TermStore) SExt(a *Term, w int) *Term {
	if a.S.W == w {
		return a
	}
	if a.IsConst() {
		return ts.BV(w, uint64(sext(a.C, a.S.W)))
	}
	return ts.mk(OSExt, Sort{KBV, w}, []*Term{a}, uint64(w), "")
}
func (ts *TermStore) Trunc(a *Term, w int) *Term {
	if a.S.W == w {
		return a
	}
	if a.IsConst() {
		return ts.BV(w, a.C)
	}
	if (a.Op == OZExt || a.Op == OSExt) && a.Args[0].S.W == w {
		return a.Args[0]
	}
	if (a.Op == OZExt || a.Op == OSExt) && a.Args[0].S.W < w {
		if a.Op == OZExt {
			return ts.ZExt(a.Args[0], w)
		}
		return ts.SExt(a.Args[0], w)
	}
	return ts.mk(OTrunc, Sort{KBV, w}, []*Term{a}, uint64(w), "")
}

// floating point
func (ts *TermStore) FCmp(op Op, a, b *Term) *Term {
	if a.IsConst() && b.IsConst() {
		x, y := math.Float64frombits(a.C), math.Float64frombits(b.C)
		switch op {
		case OFEq:
			return ts.Bool(x == y)
		case OFLt:
			return ts.Bool(x < y)
		case OFLe:
			return ts.Bool(x <= y)
		}
	}
	return ts.mk(op, SBool, []*Term{a, b}, 0, "")
}
func (ts *TermStore) FBin(op Op, a, b *Term) *Term {
	if a.IsConst() && b.IsConst() {
		x, y := math.Float64frombits(a.C), math.Float64frombits(b.C)
		switch op {
		case OFAdd:
			return ts.FP(x + y)
		case OFSub:
			return ts.FP(x - y)
		case OFMul:
			return ts.FP(x * y)
		case OFDiv:
			return ts.FP(x / y)
		}
	}
	return ts.mk(op, SFP, []*Term{a, b}, 0, "")
}
func (ts *TermStore) FUn(op Op, a *Term) *Term {
	if a.IsConst() {
		x := math.Float64frombits(a.C)
		switch op {
		case OFIsNaN:
			return ts.Bool(math.IsNaN(x))
		case OFIsInf:
			return ts.Bool(math.IsInf(x, 0))
		case OFNeg:
			return ts.FP(-x)
		}
	}
	s := SBool
	if op == OFNeg {
		s = SFP
	}
	return ts.mk(op, s, []*Term{a}, 0, "")
}
func (ts *TermStore) IntToF(a *Term, signed bool) *Term {
	if a.IsConst() {
		if signed {
			return ts.FP(float64(sext(a.C, a.S.W)))
		}
		return ts.FP(float64(a.C))
	}
	if signed {
		return ts.mk(OSToF, SFP, []*Term{a}, 0, "")
	}
	return ts.mk(OUToF, SFP, []*Term{a}, 0, "")
}
func (ts *TermStore) FToInt(a *Term, w int, signed bool) *Term {
	if a.IsConst() {
		x := math.Float64frombits(a.C)
		if signed {
			return ts.BV(w, uint64(int64(x)))
		}
		return ts.BV(w, uint64(x))
	}
	if signed {
		return ts.mk(OFToS, Sort{KBV, w}, []*Term{a}, uint64(w), "")
	}
	return ts.mk(OFToU, Sort{KBV, w}, []*Term{a}, uint64(w), "")
}

// UF application. decl is "(declare-fun name (sorts) sort)".
func (ts *TermStore) UF(name string, ret Sort, args ...*Term) *Term {
	if _, ok := ts.ufs[name]; !ok {
		var sb strings.Builder
		sb.WriteString("(declare-fun " + name + " (")
		for i, a := range args {
			if i > 0 {
				sb.WriteByte(' ')
			}
			sb.WriteString(a.S.smt())
		}
		sb.WriteString(") " + ret.smt() + ")")
		ts.ufs[name] = sb.String()
	}
	return ts.mk(OUF, ret, args, 0, name)
}

// ---------- SMT emission ----------

var opSMT = map[Op]string{
	ONot: "not", OAnd: "and", OOr: "or", OIte: "ite", OEq: "=",
	OAdd: "bvadd", OSub: "bvsub", OMul: "bvmul", OUDiv: "bvudiv", OSDiv: "bvsdiv",
	OURem: "bvurem", OSRem: "bvsrem", OBAnd: "bvand", OBOr: "bvor", OBXor: "bvxor",
	OShl: "bvshl", OLShr: "bvlshr", OAShr: "bvashr", ONeg: "bvneg", OBNot: "bvnot",
	OULt: "bvult", OULe: "bvule", OSLt: "bvslt", OSLe: "bvsle",
	OFEq: "fp.eq", OFLt: "fp.lt", OFLe: "fp.leq", OFIsNaN: "fp.isNaN", OFIsInf: "fp.isInfinite",
	OFNeg: "fp.neg",
}

func constSMT(t *Term) string {
	switch t.S.K {
	case KBool:
		if t.C == 1 {
			return "true"
		}
		return "false"
	case KBV:
		if t.S.W%4 == 0 {
			return fmt.Sprintf("#x%0*x", t.S.W/4, t.C)
		}
		return fmt.Sprintf("(_ bv%d %d)", t.C, t.S.W)
	default:
		b := t.C
		return fmt.Sprintf("(fp #b%d #b%011b #x%013x)", b>>63, (b>>52)&0x7ff, b&((1<<52)-1))
	}
}

// Emitter writes definitions for terms into a solver scope; it tracks which
// term IDs have been defined in the current scope chain.
type Emitter struct {
	defined map[int]bool
	decls   []string // pending text
	scopes  [][]int  // per push level: ids defined there
	ufDone  map[string]bool
	ufScope [][]string
}

func NewEmitter() *Emitter {
	return &Emitter{defined: map[int]bool{}, scopes: [][]int{nil}, ufDone: map[string]bool{}, ufScope: [][]string{nil}}
}

func (e *Emitter) Reset() {
	e.defined = map[int]bool{}
	e.scopes = [][]int{nil}
	e.decls = e.decls[:0]
	e.ufDone = map[string]bool{}
	e.ufScope = [][]string{nil}
}

func (e *Emitter) Push() {
	e.scopes = append(e.scopes, nil)
	e.ufScope = append(e.ufScope, nil)
}
func (e *Emitter) Pop() {
	top := e.scopes[len(e.scopes)-1]
	for _, id := range top {
		delete(e.defined, id)
	}
	e.scopes = e.scopes[:len(e.scopes)-1]
	for _, n := range e.ufScope[len(e.ufScope)-1] {
		delete(e.ufDone, n)
	}
	e.ufScope = e.ufScope[:len(e.ufScope)-1]
}

func (e *Emitter) mark(id int) {
	e.defined[id] = true
	e.scopes[len(e.scopes)-1] = append(e.scopes[len(e.scopes)-1], id)
}

// Ref returns the SMT reference for t, emitting definitions as needed into out.
func (e *Emitter) Ref(ts *TermStore, t *Term, out *strings.Builder) string {
	switch t.Op {
	case OConst:
		return constSMT(t)
	case OVar:
		if !e.defined[t.ID] {
			out.WriteString("(declare-const " + t.Name + " " + t.S.smt() + ")\n")
			e.mark(t.ID)
		}
		return t.Name
	}
	name := "t" + strconv.Itoa(t.ID)
	if e.defined[t.ID] {
		return name
	}
	refs := make([]string, len(t.Args))
	for i, a := range t.Args {
		refs[i] = e.Ref(ts, a, out)
	}
	var body string
	switch t.Op {
	case OZExt:
		body = fmt.Sprintf("((_ zero_extend %d) %s)", t.S.W-t.Args[0].S.W, refs[0])
	case OSExt:
		body = fmt.Sprintf("((_ sign_extend %d) %s)", t.S.W-t.Args[0].S.W, refs[0])
	case OTrunc:
		body = fmt.Sprintf("((_ extract %d 0) %s)", t.S.W-1, refs[0])
	case OFAdd, OFSub, OFMul, OFDiv:
		n := map[Op]string{OFAdd: "fp.add", OFSub: "fp.sub", OFMul: "fp.mul", OFDiv: "fp.div"}[t.Op]
		body = "(" + n + " RNE " + refs[0] + " " + refs[1] + ")"
	case OSToF:
		body = "((_ to_fp 11 53) RNE " + refs[0] + ")"
	case OUToF:
		body = "((_ to_fp_unsigned 11 53) RNE " + refs[0] + ")"
	case OFToS:
		body = fmt.Sprintf("((_ fp.to_sbv %d) RTZ %s)", t.S.W, refs[0])
	case OFToU:
		body = fmt.Sprintf("((_ fp.to_ubv %d) RTZ %s)", t.S.W, refs[0])
	case OUF:
		if !e.ufDone[t.Name] {
			out.WriteString(ts.ufs[t.Name] + "\n")
			e.ufDone[t.Name] = true
			e.ufScope[len(e.ufScope)-1] = append(e.ufScope[len(e.ufScope)-1], t.Name)
		}
		if len(refs) == 0 {
			body = t.Name
		} else {
			body = "(" + t.Name + " " + strings.Join(refs, " ") + ")"
		}
	default:
		body = "(" + opSMT[t.Op] + " " + strings.Join(refs, " ") + ")"
	}
	out.WriteString("(define-fun " + name + " () " + t.S.smt() + " " + body + ")\n")
	e.mark(t.ID)
	return name
}

// Eval evaluates t under an assignment of variables (name -> value bits); UF not supported.
func (t *Term) String() string {
	switch t.Op {
	case OConst:
		return constSMT(t)
	case OVar:
		return t.Name
	}
	s := make([]string, len(t.Args))
	for i, a := range t.Args {
		s[i] = a.String()
	}
	n := opSMT[t.Op]
	if n == "" {
		n = fmt.Sprintf("op%d", t.Op)
		if t.Op == OUF {
			n = t.Name
		}
	}
	return "(" + n + " " + strings.Join(s, " ") + ")"
}

func inDom(d []uint64, v uint64) bool {
	for _, x := range d {
		if x == v {
			return true
		}
	}
	return false
}

// domCmp decides a comparison of a finite-domain variable against a constant when all
// domain values agree. swapped: the constant is the left operand.
func domCmp(op Op, d []uint64, c uint64, w int, swapped bool) (bool, bool) {
	first := true
	var res bool
	for _, v := range d {
		x, y := v, c
		if swapped {
			x, y = c, v
		}
		var r bool
		switch op {
		case OULt:
			r = x < y
		case OULe:
			r = x <= y
		case OSLt:
			r = sext(x, w) < sext(y, w)
		case OSLe:
			r = sext(x, w) <= sext(y, w)
		}
		if first {
			res, first = r, false
		} else if r != res {
			return false, false
		}
	}
	return res, !first
}

// ubound: an upper bound of a 64-bit term built from zero-extended narrow values,
// constants, additions and multiplications, valid (no wrap-around) while below 2^63.
func ubound(t *Term) (uint64, bool) {
	const lim = uint64(1) << 62
	switch t.Op {
	case OConst:
		if t.C < lim {
			return t.C, true
		}
	case OZExt:
		iw := t.Args[0].S.W
		if iw <= 16 {
			in := t.Args[0]
			if in.Op == OVar && in.Dom != nil {
				var m uint64
				for _, v := range in.Dom {
					if v > m {
						m = v
					}
				}
				return m, true
			}
			return mask(iw), true
		}
	case OAdd:
		a, ok1 := ubound(t.Args[0])
		b, ok2 := ubound(t.Args[1])
		if ok1 && ok2 && a+b < lim {
			return a + b, true
		}
	case OMul:
		a, ok1 := ubound(t.Args[0])
		b, ok2 := ubound(t.Args[1])
		if ok1 && ok2 && (a == 0 || b < lim/(a+1)) {
			return a * b, true
		}
	}
	return 0, false
}
