package j2x

import (
	. "github.com/clbanning/mxj/v2"
)

func init() {
	vHarnesses["H_C06_j2x"] = H_C06_j2x
	vHarnesses["H_C12_j2x"] = H_C12_j2x
}

// j2x.MapToJson is Map.Json: absent, false and true safe-encoding flags
func H_C06_j2x() {
	m := map[string]interface{}{vNondetString(1, 1, "k<&"): vNondetString(0, 2, "<>&x\""), "n": []interface{}{1.5, nil, true}}
	plain, e0 := Map(m).Json()
	safe, e1 := Map(m).Json(true)
	g0, ge0 := MapToJson(m)
	g1, ge1 := MapToJson(m, true)
	g2, ge2 := MapToJson(m, false)
	vAssert(e0 == nil && e1 == nil && ge0 == nil && ge1 == nil && ge2 == nil, "j2x json: encodes")
	vAssert(string(g0) == string(plain), "j2x json: MapToJson(m) is Map.Json()")
	vAssert(string(g1) == string(safe), "j2x json: MapToJson(m, true) is Map.Json(true)")
	vAssert(string(g2) == string(plain), "j2x json: MapToJson(m, false) is Map.Json(false)")
	back, derr := NewMapJson(g2)
	vAssert(derr == nil && vDeepEq(map[string]interface{}(back), m), "j2x json: the output decodes to the Map")
	vCover("j2x")
}

// j2x.JsonNewJson is NewMapJson, NewMap, Json
func H_C12_j2x() {
	v := []string{"1.50", "\"x\"", "true", "[1,\"00\"]", "{\"c\":\"1e2\"}"}[vChoose(5)]
	doc := []byte("{\"a\":" + v + ",\"b\":{\"a\":\"T\"}}")
	old := []string{"a", "b.a", "b", "z"}[vChoose(4)]
	pair := old + ":" + vNondetString(1, 1, "nm") + []string{"", ".q"}[vChoose(2)]
	if vChoose(3) == 0 {
		pair = old
	}
	got, gerr := JsonNewJson(doc, pair)
	m, _ := NewMapJson(doc)
	nm, nerr := m.NewMap(pair)
	var want []byte
	if nerr == nil {
		want, _ = nm.Json()
	}
	vAssert((gerr == nil) == (nerr == nil), "j2x newmap: JsonNewJson fails exactly when NewMap fails")
	if gerr == nil {
		vAssert(string(got) == string(want), "j2x newmap: JsonNewJson returns NewMapJson, NewMap, Json")
	}
	vCover("j2x")
}
