#!/bin/bash
# usage: evalall.sh <prefix> <offset>   e.g. evalall.sh /tmp/mutb 2  -> /tmp/mutb_C07_out/m1 is filed as C07-m3
# evaluates every mutant under <prefix>_Cxx_out/m* that has not been evaluated yet (one at a time: /repo is patched)
PFX=${1:-/tmp/mut}; OFF=${2:-0}
exec 9>/tmp/evalall.lock; flock -n 9 || { echo "another evalall is running"; exit 1; }
for d in ${PFX}_C*_out/m*; do
  [ -f $d/patch.diff ] && [ -f $d/demo_test.go ] || continue
  prop=$(echo $d | sed 's,.*_\(C[0-9]*\)_out/.*,\1,'); n=$(basename $d | tr -d m); name=$prop-m$((n+OFF))
  [ -f $d/.evaluated ] && continue
  THOROUGH=0 /verif/tools/evalmut.sh $d $prop $name >> /tmp/evalall.log 2>&1
  touch $d/.evaluated
done
echo BATCH-DONE >> /tmp/evalall.log
