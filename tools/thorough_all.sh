#!/bin/bash
# runs every thorough check from the current directory (a vp-run snapshot of /verif) against $VP_RUN_REPO (or /repo)
export GOFLAGS=-mod=mod GOPROXY=off GOSUMDB=off GOTOOLCHAIN=local
export VERIF_ROOT=$PWD
REPO=${VP_RUN_REPO:-/repo}
(cd engine && go build -o ../bin/symgo .) || exit 2
for p in "$@"; do
  s=$(date +%s)
  ./bin/symgo check -repo $REPO -j ${J:-16} $p thorough > thorough_$p.log 2>&1; rc=$?
  e=$(date +%s)
  echo "THOROUGH $p rc=$rc secs=$((e-s)) $(grep -c INCONCLUSIVE thorough_$p.log) inconclusive-lines"
  grep "^\[$p\]\|INCONCLUSIVE\|VIOLATION\|^OK" thorough_$p.log | cut -c1-260
done
