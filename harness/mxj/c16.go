package mxj

func init() {
	vHarnesses["H_C16_order"] = H_C16_order
	vHarnesses["H_C16_names"] = H_C16_names
	vHarnesses["H_C16_repeat"] = H_C16_repeat
	vHarnesses["H_C16_order_seq"] = H_C16_order_seq
	vHarnesses["H_C16_variants"] = H_C16_variants
	vHarnesses["H_C16_maps"] = H_C16_maps
}

func vNondetOrderMap(nElems, nAttrs int) Map {
	inner := map[string]interface{}{}
	for i := 0; i < nElems; i++ {
		k := vNondetString(1, 1, "abc")
		_, dup := inner[k]
		vAssume(!dup)
		switch i % 3 {
		case 0:
			inner[k] = vNondetString(1, 1, "xy")
		case 1:
			inner[k] = map[string]interface{}{"z": "1", "y": "2"}
		default:
			inner[k] = []interface{}{"p", vNondetString(1, 1, "xy")}
		}
	}
	for i := 0; i < nAttrs; i++ {
		k := "-" + vNondetString(1, 1, "def")
		_, dup := inner[k]
		vAssume(!dup)
		inner[k] = vNondetString(0, 1, "12") // empty attribute values beside non-empty ones
	}
	return Map{"r": inner}
}

func vBytesEq(a, b []byte) bool { return string(a) == string(b) }

// the output is the same under every map iteration order, and keys come out ascending
func H_C16_order() {
	vResetDecOpts()
	ne, na := vP("elems", 2, 3), vP("attrs", 2, 2)
	m := vNondetOrderMap(ne, na)
	form := vChoose(4)
	enc := func() ([]byte, error) {
		switch form {
		case 0:
			return m.Xml()
		case 1:
			return m.XmlIndent("", " ")
		case 2:
			return m.Json()
		default:
			return []byte(m.StringIndent()), nil
		}
	}
	x0, e0 := enc()
	vOrderAll(true)
	x1, e1 := enc()
	vOrderAll(false)
	vAssert(e0 == nil && e1 == nil, "order: encodes")
	vAssert(vBytesEq(x0, x1), "order: the encoding is byte-identical under every map iteration order")
	vAssert(len(x0) > 0, "order: the encoding is not empty")
	// encode a different Map in between: earlier results must not change under our feet
	keep := string(x0)
	other := Map{"q": map[string]interface{}{"zz": "1"}}
	switch form {
	case 0:
		_, _ = other.Xml()
	case 1:
		_, _ = other.XmlIndent("", " ")
	case 2:
		_, _ = other.Json()
	}
	vAssert(string(x0) == keep, "order: bytes returned earlier are not altered by a later encoding")
	x2, _ := enc()
	vAssert(string(x2) == keep, "order: repeated encoding is byte-identical")
	if form <= 1 {
		toks, ok := vRawTokens(x0)
		vAssert(ok, "order: output tokenises")
		// attributes of the root and names of its direct children ascend
		depth := 0
		prev := ""
		for _, t := range toks {
			switch t.kind {
			case 0:
				depth++
				if depth == 1 {
					for i := 1; i < len(t.attrs); i++ {
						vAssert(t.attrs[i-1][0] <= t.attrs[i][0], "order: attributes are emitted in ascending key order")
					}
				}
				if depth == 2 {
					vAssert(prev <= t.name, "order: child elements are emitted in ascending key order")
					prev = t.name
				}
			case 1:
				depth--
			}
		}
		vCover("xml")
	} else {
		vCover("other")
	}
}

// MapSeq: sequence order regardless of iteration order
func H_C16_order_seq() {
	vResetDecOpts()
	n1, n2, n3 := vNondetString(1, 1, "ab"), vNondetString(1, 1, "ab"), vNondetString(1, 1, "ab")
	doc := "<r y=\"1\" x=\"2\"><" + n1 + ">1</" + n1 + "><" + n2 + "/><!--c--><" + n3 + " q=\"3\"/></r>"
	ms, err := NewMapXmlSeq([]byte(doc))
	vAssert(err == nil, "order(seq): decodes")
	if vChoose(2) == 1 {
		// the same MapSeq after a trip through JSON: its sequence numbers are float64
		j, _ := Map(ms).Json()
		mj, jerr := NewMapJson(j)
		vAssert(jerr == nil, "order(seq): a MapSeq survives JSON")
		ms = MapSeq(mj)
	}
	indent := vChoose(2) == 1
	enc := func() ([]byte, error) {
		if indent {
			return ms.XmlIndent("", " ")
		}
		return ms.Xml()
	}
	x0, e0 := enc()
	vOrderAll(true)
	x1, e1 := enc()
	vOrderAll(false)
	vAssert(e0 == nil && e1 == nil, "order(seq): encodes")
	vAssert(vBytesEq(x0, x1), "order(seq): the encoding is byte-identical under every map iteration order")
	want, _ := vRawTokens([]byte(doc))
	got, ok := vRawTokens(x0)
	vAssert(ok && vSameToks(got, want), "order(seq): elements and attributes come out in sequence order")
	vCover("seq")
}

// indented vs compact, writer forms, raw forms
func H_C16_variants() {
	vResetDecOpts()
	XmlCheckIsValid(vChoose(2) == 1) // the variants agree with the validity check on as well
	defer XmlCheckIsValid(false)
	m := vNondetOrderMap(2, 1)
	indentStr := []string{"", " ", "  "}[vChoose(3)]
	prefix := []string{"", " "}[vChoose(2)]
	x, _ := m.Xml()
	xi, _ := m.XmlIndent(prefix, indentStr)
	m1, e1 := NewMapXml(x)
	m2, e2 := NewMapXml(xi)
	vAssert(e1 == nil && e2 == nil, "variants: both forms decode")
	vAssert(vDeepEq(map[string]interface{}(m1), map[string]interface{}(m2)), "variants: the indented encoder differs from the compact one only in inter-element white space")
	// a single key holding a list with a scalar member: both forms wrap it in the default root
	lm := Map{"item": []interface{}{"first", map[string]interface{}{"x": "1"}}}
	if vChoose(2) == 1 {
		lm = Map{"item": []interface{}{map[string]interface{}{"x": "1"}, "last", map[string]interface{}{"y": "2"}}}
	}
	lx, _ := lm.Xml()
	lxi, _ := lm.XmlIndent(prefix, indentStr)
	d1, le1 := NewMapXml(lx)
	d2, le2 := NewMapXml(lxi)
	vAssert(le1 == nil && le2 == nil && vSingleRoot(lx) && vDeepEq(map[string]interface{}(d1), map[string]interface{}(d2)), "variants: a single-key Map whose list has a scalar member is one document in both forms")
	w := &vWriter{}
	vAssert(m.XmlWriter(w) == nil && vBytesEq(w.buf, x), "variants: XmlWriter writes exactly the bytes Xml returns")
	w = &vWriter{}
	vAssert(m.XmlIndentWriter(w, prefix, indentStr) == nil && vBytesEq(w.buf, xi), "variants: XmlIndentWriter writes exactly the bytes XmlIndent returns")
	safe := vChoose(2) == 1
	// the JSON forms also see the characters the safe flag is about
	m["r"].(map[string]interface{})["h"] = vNondetString(1, 1, "<&x")
	j, _ := m.Json(safe)
	if safe {
		jd, _ := m.Json()
		w = &vWriter{}
		vAssert(m.JsonWriter(w) == nil && vBytesEq(w.buf, jd), "variants: JsonWriter without the flag writes the bytes Json without the flag returns")
	}
	ji, _ := m.JsonIndent(prefix, indentStr, safe)
	w = &vWriter{}
	vAssert(m.JsonWriter(w, safe) == nil && vBytesEq(w.buf, j), "variants: JsonWriter writes exactly the bytes Json returns")
	w = &vWriter{}
	raw, rerr := m.JsonWriterRaw(w, safe)
	vAssert(rerr == nil && vBytesEq(w.buf, j) && vBytesEq(raw, j), "variants: JsonWriterRaw writes and returns the bytes Json returns")
	w = &vWriter{}
	vAssert(m.JsonIndentWriter(w, prefix, indentStr, safe) == nil && vBytesEq(w.buf, ji), "variants: JsonIndentWriter writes exactly the bytes JsonIndent returns")
	w = &vWriter{}
	raw, rerr = m.JsonIndentWriterRaw(w, prefix, indentStr, safe)
	vAssert(rerr == nil && vBytesEq(w.buf, ji) && vBytesEq(raw, ji), "variants: JsonIndentWriterRaw writes and returns the bytes JsonIndent returns")
	// MapSeq writers
	ms := MapSeq{"r": map[string]interface{}{"k": map[string]interface{}{"#text": vNondetString(1, 1, "xy"), "#seq": 0}}}
	sx, _ := ms.Xml()
	sxi, _ := ms.XmlIndent(prefix, indentStr)
	w = &vWriter{}
	vAssert(ms.XmlWriter(w) == nil && vBytesEq(w.buf, sx), "variants: MapSeq.XmlWriter writes exactly the bytes Xml returns")
	w = &vWriter{}
	vAssert(ms.XmlIndentWriter(w, prefix, indentStr) == nil && vBytesEq(w.buf, sxi), "variants: MapSeq.XmlIndentWriter writes exactly the bytes XmlIndent returns")
	t1, ok1 := vRawTokens(sx)
	t2, ok2 := vRawTokens(sxi)
	vAssert(ok1 && ok2 && vSameToks(t1, t2), "variants: MapSeq indented and compact forms have the same token stream")
	vCover("variants")
}

// Maps string forms are the concatenation of the per-Map encodings with the same flags
func H_C16_maps() {
	vResetDecOpts()
	n := 1 + vChoose(2)
	var ms Maps
	for i := 0; i < n; i++ {
		switch vChoose(3) {
		case 0:
			ms = append(ms, Map{})
		case 1:
			ms = append(ms, Map{"k": vNondetString(1, 1, "x<&")})
		default:
			ms = append(ms, Map{"k": vNondetString(1, 1, "x<&"), "n": []interface{}{"1"}})
		}
	}
	safe := vChoose(2) == 1
	wantX, wantXI, wantJ, wantJI := "", "", "", ""
	for i, m := range ms {
		x, _ := m.Xml()
		xi, _ := m.XmlIndent("", " ")
		j, _ := m.Json(safe)
		ji, _ := m.JsonIndent("", " ", safe)
		wantX += string(x)
		wantXI += string(xi)
		wantJ += string(j)
		if i > 0 {
			wantJI += "\n"
		}
		wantJI += string(ji)
	}
	gx, e1 := ms.XmlString()
	gxi, e2 := ms.XmlStringIndent("", " ")
	gj, e3 := ms.JsonString(safe)
	gji, e4 := ms.JsonStringIndent("", " ", safe)
	vAssert(e1 == nil && e2 == nil && e3 == nil && e4 == nil, "maps: the string forms encode")
	vAssert(gx == wantX, "maps: XmlString is the concatenation of the per-Map Xml encodings")
	vAssert(gxi == wantXI, "maps: XmlStringIndent is the concatenation of the per-Map XmlIndent encodings")
	vAssert(gj == wantJ, "maps: JsonString is the concatenation of the per-Map Json encodings with the same flag")
	vAssert(gji == wantJI, "maps: JsonStringIndent is the per-Map JsonIndent encodings with the same flag, one per line")
	vCover("maps")
}

// ascending key order with names that extend one another (d, d1, d-, d.x, de) and names
// that differ in case, for attributes and for child elements
func H_C16_names() {
	vResetDecOpts()
	exts := []string{"", "1", "-", ".x", "e", "D"}
	inner := map[string]interface{}{}
	n := 2 + vChoose(2)
	for i := 0; i < n; i++ {
		e := exts[vChoose(len(exts))]
		k := "d" + e
		if e == "D" {
			k = "D"
		}
		attr := vChoose(2) == 1
		if attr {
			k = "-" + k
		}
		_, dup := inner[k]
		vAssume(!dup)
		inner[k] = vNondetString(1, 1, "12")
	}
	m := Map{"r": inner}
	var x []byte
	var err error
	if vChoose(2) == 1 {
		x, err = m.XmlIndent("", " ")
	} else {
		x, err = m.Xml()
	}
	vAssert(err == nil, "names: encodes")
	toks, ok := vRawTokens(x)
	vAssert(ok, "names: output tokenises")
	depth := 0
	prev := ""
	for _, t := range toks {
		switch t.kind {
		case 0:
			depth++
			if depth == 1 {
				for i := 1; i < len(t.attrs); i++ {
					vAssert(t.attrs[i-1][0] < t.attrs[i][0], "names: attributes are emitted in ascending key order")
				}
			}
			if depth == 2 {
				vAssert(prev < t.name, "names: child elements are emitted in ascending key order")
				prev = t.name
			}
		case 1:
			depth--
		}
	}
	m2, derr := NewMapXml(x)
	vAssert(derr == nil && vDeepEq(m2["r"], inner), "names: nothing is lost")
	vCover("names")
}

// repeated calls on one Map, in every order of the encoders, give the same bytes as the
// first call and as an equal Map built afresh: mixed content, attributes, lists, empty values
func H_C16_repeat() {
	vResetDecOpts()
	build := func(t, v string) Map {
		return Map{"r": map[string]interface{}{
			"#text": t, "-a": v, "k": []interface{}{v, map[string]interface{}{"#text": t, "z": ""}}, "e": map[string]interface{}{},
		}}
	}
	t, v := vNondetString(0, 1, "tu"), vNondetString(1, 1, "12")
	m := build(t, v)
	fresh := build(t, v)
	enc := func(mm Map, i int) []byte {
		var b []byte
		switch i {
		case 0:
			b, _ = mm.Xml()
		case 1:
			b, _ = mm.XmlIndent("", " ")
		case 2:
			b, _ = mm.Json()
		case 4:
			b, _ = mm.JsonIndent("", " ")
		case 5:
			b, _ = mm.Json(true)
		default:
			w := &vWriter{}
			_ = mm.XmlWriter(w)
			b = w.buf
		}
		return b
	}
	first, second := vChoose(6), vChoose(6)
	want1 := string(enc(fresh, first))
	fresh2 := build(t, v)
	want2 := string(enc(fresh2, second))
	got1 := string(enc(m, first))
	got2 := string(enc(m, second))
	got3 := string(enc(m, first))
	vAssert(got1 == want1, "repeat: the first encoding equals that of an equal Map")
	vAssert(got2 == want2, "repeat: an encoding after another encoder has run equals that of an equal fresh Map")
	vAssert(got3 == want1, "repeat: encoding again gives the same bytes")
	vCover("repeat")
}
