package mxj

// Snapshot of every package-level option of mxj, by name (unexported identifiers). If a
// changed tree renames these variables this file no longer type-checks; the loader then
// drops the harnesses that need it (H_C18_step, H_C18_restore) with a notice and the
// public-API harnesses decide alone.

type vOptState struct {
	textK, seqK, commentK, attrK, directiveK, procinstK, targetK, instK string
	includeTagSeqNum, lowerCase, disableTrimWhiteSpace                   bool
	trimRunes, attrPrefix                                                string
	lenAttrPrefix                                                        int
	snakeCaseKeys, castToInt, handleXMPPStreamTag, decodeSimpleValuesAsMap bool
	castNanInf, castToFloat, castToBool                                  bool
	skipFuncSet                                                          bool
	useGoXmlEmptyElemSyntax, xmlCheckIsValid                             bool
	xmlEscapeChars, xmlEscapeCharsDecoder                                bool
	jsonUseNumber, useDotNotation                                        bool
	defaultArraySize                                                     int
	fieldSep                                                             string
}

func vSnapOpts() vOptState {
	return vOptState{textK, seqK, commentK, attrK, directiveK, procinstK, targetK, instK,
		includeTagSeqNum, lowerCase, disableTrimWhiteSpace, trimRunes, attrPrefix, lenAttrPrefix,
		snakeCaseKeys, castToInt, handleXMPPStreamTag, decodeSimpleValuesAsMap,
		castNanInf, castToFloat, castToBool, checkTagToSkip != nil,
		useGoXmlEmptyElemSyntax, xmlCheckIsValid, xmlEscapeChars, xmlEscapeCharsDecoder,
		JsonUseNumber, useDotNotation, defaultArraySize, fieldSep}
}

// vInvOpts: the representation invariant of the option state.
func vInvOpts(s vOptState) bool {
	if s.lenAttrPrefix != len(s.attrPrefix) {
		return false
	}
	if s.disableTrimWhiteSpace && s.trimRunes != "\t\r\b\n" {
		return false
	}
	if !s.disableTrimWhiteSpace && s.trimRunes != "\t\r\b\n " {
		return false
	}
	if s.xmlEscapeChars && s.xmlEscapeCharsDecoder {
		return false
	}
	if len(s.textK) != 5 {
		return false
	}
	p := s.textK[:1]
	if s.textK != p+"text" || s.seqK != p+"seq" || s.commentK != p+"comment" || s.attrK != p+"attr" ||
		s.directiveK != p+"directive" || s.procinstK != p+"procinst" || s.targetK != p+"target" || s.instK != p+"inst" {
		return false
	}
	if s.defaultArraySize < 32 || s.fieldSep == "" {
		return false
	}
	return true
}

// vNondetOptState installs an arbitrary option state that satisfies the invariant.
func vNondetOptState() {
	p := vNondetString(1, 1, "#_%@")
	textK, seqK, commentK, attrK = p+"text", p+"seq", p+"comment", p+"attr"
	directiveK, procinstK, targetK, instK = p+"directive", p+"procinst", p+"target", p+"inst"
	includeTagSeqNum, lowerCase, snakeCaseKeys = vNondetBool(), vNondetBool(), vNondetBool()
	disableTrimWhiteSpace = vNondetBool()
	if disableTrimWhiteSpace {
		trimRunes = "\t\r\b\n"
	} else {
		trimRunes = "\t\r\b\n "
	}
	attrPrefix = vNondetString(0, 2, "-@a")
	lenAttrPrefix = len(attrPrefix)
	castToInt, handleXMPPStreamTag, decodeSimpleValuesAsMap = vNondetBool(), vNondetBool(), vNondetBool()
	castNanInf, castToFloat, castToBool = vNondetBool(), vNondetBool(), vNondetBool()
	if vNondetBool() {
		checkTagToSkip = func(string) bool { return false }
	} else {
		checkTagToSkip = nil
	}
	useGoXmlEmptyElemSyntax, xmlCheckIsValid = vNondetBool(), vNondetBool()
	xmlEscapeChars = vNondetBool()
	xmlEscapeCharsDecoder = vNondetBool()
	vAssume(!(xmlEscapeChars && xmlEscapeCharsDecoder))
	JsonUseNumber, useDotNotation = vNondetBool(), vNondetBool()
	defaultArraySize = 32 + vChoose(2)*8
	fieldSep = vNondetString(1, 1, ":|")
}
