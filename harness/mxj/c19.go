package mxj

import "os"

func init() {
	vHarnesses["H_C19_xmlfile"] = H_C19_xmlfile
	vHarnesses["H_C19_jsonfile"] = H_C19_jsonfile
	vHarnesses["H_C19_damaged"] = H_C19_damaged
	vHarnesses["H_C19_copy"] = H_C19_copy
	vHarnesses["H_C19_rewrite"] = H_C19_rewrite
}

func vNondetFileMaps() Maps {
	n := 1 + vChoose(vP("maps", 2, 3))
	var ms Maps
	for i := 0; i < n; i++ {
		k := vNondetString(1, 1, "ab")
		var m Map
		switch vChoose(3) {
		case 0:
			m = Map{"r": map[string]interface{}{k: vNondetString(1, 1, "x{}\"\\"), "-a": "1"}}
		case 1:
			m = Map{"r": map[string]interface{}{k: []interface{}{"p", "q"}}}
		default:
			m = Map{k: vNondetString(1, 1, "xy")}
		}
		ms = append(ms, m)
	}
	return ms
}

func H_C19_xmlfile() {
	vResetDecOpts()
	XMLEscapeChars(true)
	ms := vNondetFileMaps()
	name := vTempFile("x")
	indent := vChoose(2) == 1
	var werr error
	pfx, ind := "", ""
	if indent {
		pfx, ind = []string{"", " "}[vChoose(2)], []string{" ", "  "}[vChoose(2)]
		werr = ms.XmlFileIndent(name, pfx, ind)
	} else {
		werr = ms.XmlFile(name)
	}
	vAssert(werr == nil, "xml file: the Maps are written")
	raw := vChoose(2) == 1
	if raw {
		got, err := NewMapsFromXmlFileRaw(name)
		vAssert(err == nil, "xml file: the file is read back (raw)")
		vAssert(len(got) == len(ms), "xml file: the same number of Maps is read back (raw)")
		for i := range got {
			x, _ := ms[i].Xml()
			want, _ := NewMapXml(x)
			vAssert(vDeepEq(map[string]interface{}(got[i].M), map[string]interface{}(want)), "xml file: each Map read back equals the Map its own encoding decodes to, in order (raw)")
			var enc []byte
			if indent {
				enc, _ = ms[i].XmlIndent(pfx, ind)
			} else {
				enc = x
			}
			vAssert(vContainsStr(string(got[i].R), string(enc)), "xml file: the raw value contains the Map's own encoding with the same prefix and indent")
			back, berr := NewMapXml(got[i].R)
			vAssert(berr == nil && vDeepEq(map[string]interface{}(back), map[string]interface{}(want)), "xml file: the raw value contains the document's text")
		}
		vCover("raw")
	} else {
		got, err := NewMapsFromXmlFile(name)
		vAssert(err == nil, "xml file: the file is read back")
		vAssert(len(got) == len(ms), "xml file: the same number of Maps is read back")
		for i := range got {
			x, _ := ms[i].Xml()
			want, _ := NewMapXml(x)
			vAssert(vDeepEq(map[string]interface{}(got[i]), map[string]interface{}(want)), "xml file: each Map read back equals the Map its own encoding decodes to, in order")
		}
		vCover("plain")
	}
	XMLEscapeChars(false)
	os.Remove(name)
}

func H_C19_jsonfile() {
	ms := vNondetFileMaps()
	name := vTempFile("j")
	var werr error
	if vChoose(2) == 1 {
		werr = ms.JsonFileIndent(name, "", " ")
	} else {
		werr = ms.JsonFile(name)
	}
	vAssert(werr == nil, "json file: the Maps are written")
	if vChoose(2) == 1 {
		got, err := NewMapsFromJsonFileRaw(name)
		vAssert(err == nil, "json file: the file is read back (raw)")
		vAssert(len(got) == len(ms), "json file: the same number of Maps is read back (raw)")
		for i := range got {
			vAssert(vDeepEq(map[string]interface{}(got[i].M), map[string]interface{}(ms[i])), "json file: each Map read back equals the original, in order (raw)")
			back, berr := NewMapJson(got[i].R)
			vAssert(berr == nil && vDeepEq(map[string]interface{}(back), map[string]interface{}(ms[i])), "json file: the raw value contains the object's text")
		}
		vCover("raw")
	} else {
		got, err := NewMapsFromJsonFile(name)
		vAssert(err == nil, "json file: the file is read back")
		vAssert(len(got) == len(ms), "json file: the same number of Maps is read back")
		for i := range got {
			vAssert(vDeepEq(map[string]interface{}(got[i]), map[string]interface{}(ms[i])), "json file: each Map read back equals the original, in order")
		}
		vCover("plain")
	}
	os.Remove(name)
}

// damaged or missing files: an error together with the Maps read so far
func H_C19_damaged() {
	vResetDecOpts()
	name := vTempFile("d")
	isXML := vChoose(2) == 1
	good := Map{"a": "x"}
	var first, second string
	if isXML {
		x, _ := good.Xml()
		first = string(x)
		second = []string{"<b>", "<b></c>", "<b a=></b>", "</b>", "<b", "<?xml vers", "<b></c><d>later</d>"}[vChoose(7)]
	} else {
		j, _ := good.Json()
		first = string(j)
		second = []string{"{\"b\":", "{\"b\":x}", "{\"b\":1", "\"b\":2}{\"c\":3}", "}{\"c\":3}", " } {\"c\":3}", "{\"b\":x}{\"c\":3}", "{\"b\":}\n{\"c\":3}"}[vChoose(8)]
	}
	switch vChoose(4) {
	case 0: // missing file
		os.Remove(name)
		var err error
		if isXML {
			_, err = NewMapsFromXmlFile(name)
		} else {
			_, err = NewMapsFromJsonFile(name)
		}
		vAssert(err != nil, "damaged file: a missing file is an error")
		vCover("missing")
		return
	case 1: // one good document, then damage
		fh, _ := os.Create(name)
		fh.WriteString(first + second)
		fh.Close()
		if isXML {
			got, err := NewMapsFromXmlFile(name)
			vAssert(err != nil, "damaged file: malformed content is an error")
			vAssert(len(got) == 1 && vDeepEq(map[string]interface{}(got[0]), map[string]interface{}(good)), "damaged file: the Maps read before the damage are returned with the error")
		} else {
			got, err := NewMapsFromJsonFile(name)
			vAssert(err != nil, "damaged file: malformed content is an error")
			vAssert(len(got) == 1 && vDeepEq(map[string]interface{}(got[0]), map[string]interface{}(good)), "damaged file: the Maps read before the damage are returned with the error")
		}
		vCover("after-first")
	case 3: // a good document followed by blanks only: one Map, whatever the reader form
		fh, _ := os.Create(name)
		fh.WriteString(first + []string{" ", "\n  ", "\n\n"}[vChoose(3)])
		fh.Close()
		if isXML {
			got, err := NewMapsFromXmlFileRaw(name)
			vAssert(err == nil && len(got) == 1 && vDeepEq(map[string]interface{}(got[0].M), map[string]interface{}(good)), "trailing blanks: exactly the one Map is read back (raw)")
			got2, err2 := NewMapsFromXmlFile(name)
			vAssert(err2 == nil && len(got2) == 1, "trailing blanks: exactly the one Map is read back")
		} else {
			got, err := NewMapsFromJsonFileRaw(name)
			vAssert(err == nil && len(got) == 1 && vDeepEq(map[string]interface{}(got[0].M), map[string]interface{}(good)), "trailing blanks: exactly the one Map is read back (raw)")
			got2, err2 := NewMapsFromJsonFile(name)
			vAssert(err2 == nil && len(got2) == 1, "trailing blanks: exactly the one Map is read back")
		}
		vCover("trailing")
	default: // damage right at the start
		fh, _ := os.Create(name)
		fh.WriteString(second)
		fh.Close()
		if isXML {
			got, err := NewMapsFromXmlFileRaw(name)
			vAssert(err != nil && len(got) == 0, "damaged file: a malformed first document is an error with no Maps")
		} else {
			got, err := NewMapsFromJsonFileRaw(name)
			vAssert(err != nil && len(got) == 0, "damaged file: a malformed first object is an error with no Maps")
		}
		vCover("at-start")
	}
	os.Remove(name)
}

// Copy returns a deeply equal Map
func H_C19_copy() {
	s := vJSpec{depth: vP("depth", 2, 3), width: vP("width", 2, 2), innerMap: vP("map", 1, 2), innerList: vP("list", 2, 2), scalars: "sb", strAlpha: "a<\"", attrs: false}
	n := vChoose(s.width + 1)
	m := make(map[string]interface{}, n)
	for i := 0; i < n; i++ {
		key := vNondetString(1, 1, "ab")
		_, dup := m[key]
		vAssume(!dup)
		m[key] = vNondetJSON(s, s.depth-1, false)
	}
	c, err := Map(m).Copy()
	vAssert(err == nil, "copy: succeeds for JSON types")
	vAssert(vDeepEq(m, map[string]interface{}(c)), "copy: the copy is deeply equal to the original")
	jo, _ := Map(m).Json()
	jc, _ := c.Json()
	vAssert(string(jo) == string(jc), "copy: original and copy have the same JSON text (an empty list stays an empty list, not null)")
	// a Map decoded with JsonUseNumber holds json.Number values; its copy holds them too
	JsonUseNumber = true
	num := []string{"1", "1.10", "12345678901234567890", "-0.5e3"}[vChoose(4)]
	mn, nerr := NewMapJson([]byte("{\"n\":" + num + ",\"l\":[" + num + ",\"s\"]}"))
	cn, cerr := mn.Copy()
	JsonUseNumber = false
	vAssert(nerr == nil && cerr == nil, "copy: a Map with json.Number values is copied without error")
	vAssert(vDeepEq(map[string]interface{}(mn), map[string]interface{}(cn)), "copy: under JsonUseNumber the copy holds the same json.Number values")
	vCover("copy")
}

// writing a shorter list over an existing longer file: what is read back is what was written last
func H_C19_rewrite() {
	vResetDecOpts()
	name := vTempFile("rw")
	long := Maps{Map{"a": "xxxxxxxx"}, Map{"b": map[string]interface{}{"c": "yyyy", "d": "zzzz"}}, Map{"e": "1"}}
	short := Maps{Map{"q": vNondetString(1, 1, "xy")}}
	form := vChoose(4)
	write := func(ms Maps) error {
		switch form {
		case 0:
			return ms.XmlFile(name)
		case 1:
			return ms.XmlFileIndent(name, "", " ")
		case 2:
			return ms.JsonFile(name)
		default:
			return ms.JsonFileIndent(name, "", " ")
		}
	}
	vAssert(write(long) == nil && write(short) == nil, "rewrite: both writes succeed")
	var got Maps
	var err error
	if form < 2 {
		got, err = NewMapsFromXmlFile(name)
	} else {
		got, err = NewMapsFromJsonFile(name)
	}
	vAssert(err == nil, "rewrite: the rewritten file is read back without error")
	vAssert(len(got) == 1 && vDeepEq(map[string]interface{}(got[0]), map[string]interface{}(short[0])), "rewrite: exactly the Maps written last are read back")
	os.Remove(name)
	vCover("rewrite")
}
