package mxj

import (
	"bytes"
	"encoding/json"
	"io"
)

func init() {
	vHarnesses["H_C06_roundtrip"] = H_C06_roundtrip
	vHarnesses["H_C06_shapes"] = H_C06_shapes
	vHarnesses["H_C06_accept"] = H_C06_accept
	vHarnesses["H_C06_objectkey"] = H_C06_objectkey
	vHarnesses["H_C06_numbers"] = H_C06_numbers
}

func vNondetJSONText(maxPieces int) string {
	pieces := []string{"\\", "u003c", "u003e", "u0026", "<", ">", "&", "\""}
	n := vChoose(maxPieces + 1)
	v := ""
	for i := 0; i < n; i++ {
		k := vChoose(len(pieces) + 1)
		if k == len(pieces) {
			v += vNondetString(1, 1, "a\n")
		} else {
			v += pieces[k]
		}
	}
	return v
}

func vContains(b []byte, c byte) bool {
	for _, x := range b {
		if x == c {
			return true
		}
	}
	return false
}

func vC06check(m Map, safe bool, indent bool) {
	var b []byte
	var err error
	ind := " "
	if indent && vChoose(2) == 1 {
		ind = "" // empty prefix and indent: the compact form, in the requested encoding
	}
	switch {
	case indent && safe:
		b, err = m.JsonIndent("", ind, true)
	case indent:
		b, err = m.JsonIndent("", ind)
	case safe:
		b, err = m.Json(true)
	default:
		b, err = m.Json()
	}
	vAssert(err == nil, "json: a Map of JSON types encodes without error")
	// a later encoding (of a smaller Map) must not disturb the bytes returned earlier
	keep := string(b)
	other := Map{"z": "<"}
	_, _ = other.Json(safe)
	_, _ = other.JsonIndent("", " ", safe)
	_, _ = other.Copy()
	vAssert(string(b) == keep, "json: the bytes returned by an encoder are not altered by later encodings")
	var probe interface{}
	vAssert(json.Unmarshal(b, &probe) == nil, "json: the output is valid JSON")
	// agreement with encoding/json: HTML escaping on for the safe encoding, off for the default one
	var ref bytes.Buffer
	enc := json.NewEncoder(&ref)
	enc.SetEscapeHTML(safe)
	if indent {
		enc.SetIndent("", ind)
	}
	vAssert(enc.Encode(map[string]interface{}(m)) == nil, "json: encoding/json encodes the Map")
	want := ref.Bytes()
	if indent && safe {
		// the safe indented form is json.MarshalIndent (which, unlike an Encoder, also
		// breaks lines when prefix and indent are both empty)
		mi, mierr := json.MarshalIndent(map[string]interface{}(m), "", ind)
		vAssert(mierr == nil, "json: encoding/json encodes the Map")
		want = append(mi, '\n')
	}
	vAssert(len(want) == len(b)+1 && string(want[:len(b)]) == string(b), "json: the output is byte for byte what encoding/json produces (with <, > and & literal in the default encoding)")
	if safe {
		vAssert(!vContains(b, '<') && !vContains(b, '>') && !vContains(b, '&'), "json: the safe encoding never contains <, > or & literally")
		vCover("safe")
	} else {
		vCover("default")
	}
	m2, derr := NewMapJson(b)
	vAssert(derr == nil, "json: NewMapJson decodes the output")
	vAssert(vDeepEq(map[string]interface{}(m), map[string]interface{}(m2)), "json: decode(encode(m)) equals m")
}

// string contents: <, >, &, backslashes, quotes, control characters, literal < text
func H_C06_roundtrip() {
	n, nk := vP("text", 3, 4), vP("key", 1, 2)
	k := "k"
	if vChoose(2) == 1 {
		k = vNondetJSONText(nk)
	}
	m := Map{k: vNondetJSONText(n)}
	vC06check(m, vChoose(2) == 1, vChoose(2) == 1)
}

// shapes: nested maps, lists, numbers, booleans, nulls
func H_C06_shapes() {
	s := vJSpec{depth: vP("depth", 2, 3), width: vP("width", 2, 2), innerMap: vP("map", 1, 2), innerList: vP("list", 2, 2), scalars: []string{"senb", "senbf"}[vP("rich", 0, 1)], strAlpha: []string{"a<", "a<\""}[vP("rich", 0, 1)], attrs: false}
	n := vChoose(s.width + 1)
	m := make(map[string]interface{}, n)
	for i := 0; i < n; i++ {
		key := vNondetString(1, 1, "ab")
		_, dup := m[key]
		vAssume(!dup)
		m[key] = vNondetJSON(s, s.depth-1, false)
	}
	vC06check(Map(m), vChoose(2) == 1, vChoose(2) == 1)
}

// NewMapJson accepts exactly the inputs whose first value encoding/json decodes as an
// object or an array (wrapped under "object"), and returns that value
func H_C06_accept() {
	pre := vNondetString(0, 2, " \n[{x")
	if vChoose(5) == 0 {
		pre = "\xef\xbb\xbf" // a byte-order mark is not white space for encoding/json
	}
	var body string
	switch vChoose(6) {
	case 0:
		body = "{\"a\":1}"
	case 1:
		body = "[1,\"b\"]"
	case 2:
		body = "\"s\""
	case 3:
		body = "12.50"
	case 4:
		body = "{\"a\":12.50} {\"b\":2}"
	default:
		body = vNondetString(0, 2, "]} ,1")
	}
	in := []byte(pre + body)
	vAssume(len(in) > 0) // the empty input is documented to give an empty Map
	useNumber := vChoose(2) == 1
	JsonUseNumber = useNumber
	var ref interface{}
	dec := json.NewDecoder(bytes.NewReader(in))
	if useNumber {
		dec.UseNumber()
	}
	rerr := dec.Decode(&ref)
	m, err := NewMapJson(in)
	JsonUseNumber = false
	if rl, isList := ref.([]interface{}); isList && err != nil && vKnown("C06-array-trailing-data") {
		var rest interface{}
		if dec.Decode(&rest) != io.EOF {
			// known finding: an array followed by further data is wrapped textually and rejected
			_ = rl
			vKnownHit("C06-array-trailing-data")
			return
		}
	}
	switch rv := ref.(type) {
	case map[string]interface{}:
		vAssert(rerr == nil && err == nil, "accept: an object is accepted")
		vAssert(vDeepEq(map[string]interface{}(m), rv), "accept: the object is returned as decoded by encoding/json")
		vCover("object")
	case []interface{}:
		vAssert(rerr == nil && err == nil, "accept: an array is accepted")
		vAssert(len(m) == 1 && vDeepEq(m["object"], rv), "accept: the array is returned under \"object\"")
		vCover("array")
	default:
		vAssert(err != nil, "accept: anything else is rejected")
		vCover("rejected")
	}
}

// numbers: float64 values survive encode/decode; with JsonUseNumber the exact text is kept
func H_C06_numbers() {
	f := vNondetFloat()
	m := Map{"n": f, "l": []interface{}{f, "x"}}
	vC06check(m, vChoose(2) == 1, false)
	txt := []string{"12.50", "-0.0", "1e2", "100000000000000000000001"}[vChoose(4)]
	JsonUseNumber = true
	m2, err := NewMapJson([]byte("{\"a\":" + txt + "}"))
	JsonUseNumber = false
	vAssert(err == nil, "numbers: decodes with JsonUseNumber")
	n, ok := m2["a"].(json.Number)
	vAssert(ok && string(n) == txt, "numbers: with JsonUseNumber a number keeps its exact text")
	b, jerr := m2.Json()
	vAssert(jerr == nil && string(b) == "{\"a\":"+txt+"}", "numbers: a json.Number is encoded as its text")
	vCover("numbers")
}

// a Map that happens to have the key "object" (under which NewMapJson wraps top-level arrays)
func H_C06_objectkey() {
	m := Map{"object": []interface{}{"1", vNondetString(1, 1, "x<")}}
	if vChoose(2) == 1 {
		m["z"] = vNondetString(1, 1, "yw")
	}
	if vChoose(3) == 0 {
		m["object"] = map[string]interface{}{"k": []interface{}{}}
	}
	vC06check(m, vChoose(2) == 1, vChoose(2) == 1)
	c, cerr := m.Copy()
	vAssert(cerr == nil && vDeepEq(map[string]interface{}(c), map[string]interface{}(m)), "object key: Copy keeps every key")
	vCover("objectkey")
}
