package main

import (
	"fmt"
	"go/types"
	"strings"

	"golang.org/x/tools/go/ssa"
)

func (x *Exec) prepareCall(fr *frame, call *ssa.CallCommon) (Value, []Value) {
	var fn Value
	var args []Value
	if call.IsInvoke() {
		recv := x.asIface(fr.get(call.Value))
		if recv.T == nil {
			x.tpanic("nil pointer dereference (method call on nil interface)")
		}
		m := x.eng.lookupMethod(recv.T, call.Method)
		if m == nil {
			x.unsupported("no method " + call.Method.Name() + " on " + typeStr(recv.T))
		}
		fn = &Closure{Fn: m}
		args = append(args, recv.V)
	} else {
		fn = fr.get(call.Value)
	}
	for _, a := range call.Args {
		args = append(args, fr.get(a))
	}
	return fn, args
}

func (x *Exec) doCall(fr *frame, call *ssa.CallCommon, in *ssa.Call) Value {
	if call.IsInvoke() {
		if rt, ok := fr.get(call.Value).(ReflectT); ok {
			if call.Method.Name() == "Kind" {
				return x.ts.BV(64, kindOf(rt.T))
			}
			x.unsupported("reflect.Type method " + call.Method.Name())
		}
	}
	fn, args := x.prepareCall(fr, call)
	return x.callValue(fn, args, fr)
}

func (x *Exec) callValue(fn Value, args []Value, fr *frame) Value {
	switch f := fn.(type) {
	case BuiltinV:
		return x.callBuiltin(f.B, args, fr)
	case *Closure:
		if f == nil {
			x.tpanic("call of nil function")
		}
		return x.callFn(f.Fn, args, f.Env, fr)
	}
	x.unsupported(fmt.Sprintf("call of %T", fn))
	return nil
}

func (x *Exec) callFn(fn *ssa.Function, args []Value, env []Value, fr *frame) Value {
	name := x.eng.funcInfo(fn).name
	if fn.Pkg != nil && x.eng.harnessPkgs[fn.Pkg.Pkg.Path()] && fn.Signature.Recv() == nil {
		if h, ok := intrinsics[fn.Name()]; ok {
			return h(x, fr, fn, args)
		}
	}
	if h, ok := models[name]; ok {
		return h(x, fr, fn, args)
	}
	// prelude-provided model: function m_<pkg>_<Name> in the harness package
	pkg := fn.Pkg
	if pkg == nil && fn.Origin() != nil {
		pkg = fn.Origin().Pkg
	}
	if pkg != nil && !x.eng.interpreted(pkg.Pkg.Path()) {
		if fn.Pkg != nil {
			if pm := x.eng.preludeModel(fn); pm != nil {
				return x.callFunction(pm, args, nil)
			}
		}
		if fn.Signature.Recv() == nil && (fn.Name() == "init" || strings.HasPrefix(fn.Name(), "init#")) && fn.Synthetic != "" || (fn.Signature.Recv() == nil && fn.Name() == "init") {
			return nil // package initialisers of packages that are not interpreted
		}
		if !x.eng.allowedPkg(pkg.Pkg.Path()) {
			if x.inStdInit > 0 {
				// initialisers of unrelated package state (reflect types, sync pools)
				return x.zeroResults(fn)
			}
			x.unsupported("external call " + name)
		}
	}
	if fn.Blocks == nil {
		x.unsupported("external call (no body) " + name)
	}
	return x.callFunction(fn, args, env)
}

func (x *Exec) callBuiltin(b *ssa.Builtin, args []Value, fr *frame) Value {
	ts := x.ts
	switch b.Name() {
	case "len":
		switch a := args[0].(type) {
		case Str:
			return ts.BV(64, uint64(len(a.B)))
		case Slice:
			return ts.BV(64, uint64(a.Len))
		case *MapObj:
			if a == nil {
				return ts.BV(64, 0)
			}
			x.forceMapSize(a)
			return ts.BV(64, uint64(len(a.Entries)))
		case ArrayV:
			return ts.BV(64, uint64(len(a)))
		case Ptr:
			return ts.BV(64, uint64(len((*a.C).(ArrayV))))
		}
	case "cap":
		switch a := args[0].(type) {
		case Slice:
			return ts.BV(64, uint64(a.Cap))
		case ArrayV:
			return ts.BV(64, uint64(len(a)))
		}
	case "append":
		s := args[0].(Slice)
		var add []Value
		switch a := args[1].(type) {
		case Slice:
			for i := 0; i < a.Len; i++ {
				add = append(add, copyVal(a.A.E[a.Off+i]))
			}
		case Str:
			for _, t := range a.B {
				add = append(add, t)
			}
		}
		return x.appendVals(s, add)
	case "copy":
		dst := args[0].(Slice)
		var src []Value
		switch a := args[1].(type) {
		case Slice:
			for i := 0; i < a.Len; i++ {
				src = append(src, a.A.E[a.Off+i])
			}
		case Str:
			for _, t := range a.B {
				src = append(src, t)
			}
		}
		n := dst.Len
		if len(src) < n {
			n = len(src)
		}
		for i := 0; i < n; i++ {
			x.logElemWrite(dst.A, dst.Off+i, dst.A.E[dst.Off+i], src[i])
			dst.A.E[dst.Off+i] = copyVal(src[i])
		}
		return ts.BV(64, uint64(n))
	case "delete":
		x.mapDelete(args[0].(*MapObj), args[1])
		return nil
	case "print", "println":
		return nil
	case "panic":
		panic(&targetPanic{Msg: "panic: " + x.describe(args[0], 0), Site: x.site(), Val: args[0]})
	case "recover":
		// find the innermost panicking frame whose defers are running
		for i := len(x.deferFrames) - 1; i >= 0; i-- {
			f := x.deferFrames[i]
			if f.panicking != nil {
				p := f.panicking
				f.panicking = nil
				if p.Val != nil {
					if _, ok := p.Val.(Iface); ok {
						return p.Val
					}
				}
				return x.newErrorIface("runtime error: " + p.Msg)
			}
			break
		}
		return Iface{}
	case "ssa:wrapnilchk":
		p := args[0].(Ptr)
		if p.C == nil {
			x.tpanic("value method called using nil pointer")
		}
		return args[0]
	case "clear":
		switch a := args[0].(type) {
		case Slice:
			for i := 0; i < a.Len; i++ {
				old := a.A.E[a.Off+i]
				var z Value
				switch o := old.(type) {
				case *Term:
					switch o.S.K {
					case KBool:
						z = ts.tFals
					case KFP:
						z = ts.FP(0)
					default:
						z = ts.BV(o.S.W, 0)
					}
				case Str:
					z = Str{}
				case Iface, *Lazy:
					z = Iface{}
				case Ptr:
					z = Ptr{}
				case Slice:
					z = Slice{}
				case *MapObj:
					z = (*MapObj)(nil)
				default:
					x.unsupported("clear of slice with this element type")
				}
				x.logElemWrite(a.A, a.Off+i, old, z)
				a.A.E[a.Off+i] = z
			}
			return nil
		case *MapObj:
			if a != nil {
				x.forceMapSize(a)
				for len(a.Entries) > 0 {
					x.mapDelete(a, a.Entries[0].K)
				}
			}
			return nil
		}
	case "min", "max":
		r := args[0].(*Term)
		_, signed, _ := intInfo(fr.fn.Signature.Params().At(0).Type())
		_ = signed
		for _, o := range args[1:] {
			t := o.(*Term)
			var lt *Term
			if t.S.K == KFP {
				lt = ts.FCmp(OFLt, t, r)
			} else {
				lt = ts.Cmp(OSLt, t, r)
			}
			if b.Name() == "max" {
				lt = ts.Not(lt)
				if t.S.K != KFP {
					lt = ts.Cmp(OSLt, r, t)
				}
			}
			r = ts.Ite(lt, t, r)
		}
		return r
	}
	x.unsupported("builtin " + b.Name() + fmt.Sprintf(" on %T", args[0]))
	return nil
}

func (x *Exec) newErrorIface(msg string) Value { return x.newError(msg) }

// appendVals implements append with Go's aliasing behaviour: in place while capacity
// suffices, otherwise a fresh backing array with Go's growth formula (size-class
// rounding of the runtime allocator is not modelled).
func (x *Exec) appendVals(s Slice, add []Value) Slice {
	if len(add) == 0 {
		return s
	}
	need := s.Len + len(add)
	if s.A != nil && need <= s.Cap {
		for i, v := range add {
			// an in-place append writes the shared backing array: other slices over the
			// same array see it if the position lies within their length
			x.logElemWrite(s.A, s.Off+s.Len+i, s.A.E[s.Off+s.Len+i], v)
			s.A.E[s.Off+s.Len+i] = v
		}
		return Slice{A: s.A, Off: s.Off, Len: need, Cap: s.Cap}
	}
	newcap := s.Cap
	doublecap := newcap + newcap
	if need > doublecap {
		newcap = need
	} else {
		const threshold = 256
		if s.Cap < threshold {
			newcap = doublecap
		} else {
			for newcap < need {
				newcap += (newcap + 3*threshold) / 4
			}
		}
	}
	if newcap < need {
		newcap = need
	}
	a := x.newArr(newcap)
	for i := 0; i < s.Len; i++ {
		a.E[i] = s.A.E[s.Off+i]
	}
	for i, v := range add {
		a.E[s.Len+i] = v
	}
	// fill the rest with a typed zero lazily: nil is fine for interface elems; terms for bytes
	if len(add) > 0 {
		var z Value
		switch add[0].(type) {
		case *Term:
			t := add[0].(*Term)
			if t.S.K == KBV {
				z = x.ts.BV(t.S.W, 0)
			} else if t.S.K == KBool {
				z = x.ts.tFals
			} else {
				z = x.ts.FP(0)
			}
		case Str:
			z = Str{}
		case Iface, *Lazy:
			z = Iface{}
		}
		if z != nil {
			for i := need; i < newcap; i++ {
				a.E[i] = z
			}
		}
	}
	return Slice{A: a, Off: 0, Len: need, Cap: newcap}
}

// ---- method lookup ----

func (e *Engine) lookupMethod(t types.Type, m *types.Func) *ssa.Function {
	ms := e.prog.MethodSets.MethodSet(t)
	sel := ms.Lookup(m.Pkg(), m.Name())
	if sel == nil {
		return nil
	}
	return e.prog.MethodValue(sel)
}

func (e *Engine) interpreted(path string) bool {
	return strings.HasPrefix(path, "github.com/clbanning/mxj") || e.harnessPkgs[path]
}

// allowedStd: standard-library functions that are executed from their own SSA.
func (e *Engine) allowedPkg(path string) bool {
	switch path {
	case "errors", "sort", "unicode/utf8", "slices", "cmp", "math/bits", "unicode", "internal/stringslite", "internal/bytealg", "io":
		return true
	case "strconv":
		return true
	case "strings", "bytes", "encoding/xml", "io/fs", "regexp", "regexp/syntax", "bufio", "io/ioutil":
		return true
	case "os":
		// only the FileInfo accessors of os.fileStat run for real; everything else in
		// package os is modelled (osmodels.go) or unsupported
		return true
	}
	return false
}

func (e *Engine) preludeModel(fn *ssa.Function) *ssa.Function {
	e.pmMu.Lock()
	defer e.pmMu.Unlock()
	if r, ok := e.pmCache[fn]; ok {
		return r
	}
	var name string
	if recv := fn.Signature.Recv(); recv != nil {
		rt := recv.Type()
		if p, ok := rt.(*types.Pointer); ok {
			rt = p.Elem()
		}
		if n, ok := rt.(*types.Named); ok {
			name = "m_" + fn.Pkg.Pkg.Name() + "_" + n.Obj().Name() + "_" + fn.Name()
		}
	} else {
		name = "m_" + fn.Pkg.Pkg.Name() + "_" + fn.Name()
	}
	var res *ssa.Function
	if name != "" {
		for _, hp := range e.harnessSSA {
			if f := hp.Func(name); f != nil {
				res = f
				break
			}
		}
	}
	e.pmCache[fn] = res
	return res
}
