package mxj

// jsonlite: a byte-level model of the parts of encoding/json that mxj uses
// (Marshal/MarshalIndent of JSON-shaped values; Decoder.Decode/Unmarshal into
// *map[string]interface{} / *interface{}, with UseNumber). The engine maps calls to
// encoding/json onto these functions; natively they are dead code except for the
// differential tests against the real package.

import (
	"encoding/json"
	"errors"
	"io"
	"math"
	"strconv"
)

var vErrJSON = errors.New("json: error")

const vHex = "0123456789abcdef"

func vjHTMLSafe(b byte, escapeHTML bool) bool {
	if b < 0x20 || b == '"' || b == '\\' {
		return false
	}
	if escapeHTML && (b == '<' || b == '>' || b == '&') {
		return false
	}
	return true
}

func vjString(dst []byte, s string, escapeHTML bool) []byte {
	dst = append(dst, '"')
	for i := 0; i < len(s); {
		b := s[i]
		if b < 0x80 {
			if vjHTMLSafe(b, escapeHTML) {
				dst = append(dst, b)
				i++
				continue
			}
			switch b {
			case '\\', '"':
				dst = append(dst, '\\', b)
			case '\b':
				dst = append(dst, '\\', 'b')
			case '\f':
				dst = append(dst, '\\', 'f')
			case '\n':
				dst = append(dst, '\\', 'n')
			case '\r':
				dst = append(dst, '\\', 'r')
			case '\t':
				dst = append(dst, '\\', 't')
			default:
				dst = append(dst, '\\', 'u', '0', '0', vHex[b>>4], vHex[b&0xF])
			}
			i++
			continue
		}
		c, size := vDecodeRune(s[i:])
		if c == 0xFFFD && size == 1 {
			dst = append(dst, '\\', 'u', 'f', 'f', 'f', 'd')
			i += size
			continue
		}
		if c == 0x2028 || c == 0x2029 {
			dst = append(dst, '\\', 'u', '2', '0', '2', vHex[c&0xF])
			i += size
			continue
		}
		dst = append(dst, s[i:i+size]...)
		i += size
	}
	return append(dst, '"')
}

// vDecodeRune: concrete UTF-8 decoding (the engine's utf8 model forks on symbolic bytes).
func vDecodeRune(s string) (rune, int) {
	for _, r := range s {
		n := 1
		switch {
		case r == 0xFFFD:
			// either a real U+FFFD (3 bytes) or an invalid byte
			if len(s) >= 3 && s[0] == 0xEF && s[1] == 0xBF && s[2] == 0xBD {
				n = 3
			}
		case r >= 0x10000:
			n = 4
		case r >= 0x800:
			n = 3
		case r >= 0x80:
			n = 2
		}
		return r, n
	}
	return 0xFFFD, 0
}

// vFormatFloatJSON: natively the ES6-style text encoding/json produces; under the engine
// an intrinsic returning a symbolic numeral that is a function of f.
func vFormatFloatJSON(f float64) string {
	abs := math.Abs(f)
	fmtc := byte('f')
	if abs != 0 && (abs < 1e-6 || abs >= 1e21) {
		fmtc = 'e'
	}
	b := strconv.AppendFloat(nil, f, fmtc, -1, 64)
	if fmtc == 'e' {
		n := len(b)
		if n >= 4 && b[n-4] == 'e' && b[n-3] == '-' && b[n-2] == '0' {
			b[n-2] = b[n-1]
			b = b[:n-1]
		}
	}
	return string(b)
}

func vjSortedKeys(m map[string]interface{}) []string {
	keys := make([]string, 0, len(m))
	for k := range m {
		keys = append(keys, k)
	}
	for i := 1; i < len(keys); i++ {
		for j := i; j > 0 && keys[j] < keys[j-1]; j-- {
			keys[j], keys[j-1] = keys[j-1], keys[j]
		}
	}
	return keys
}

func vjNewline(dst []byte, prefix, indent string, depth int) []byte {
	dst = append(dst, '\n')
	dst = append(dst, prefix...)
	for i := 0; i < depth; i++ {
		dst = append(dst, indent...)
	}
	return dst
}

func vjValidNumber(s string) bool {
	// JSON number grammar
	i := 0
	if i < len(s) && s[i] == '-' {
		i++
	}
	if i >= len(s) {
		return false
	}
	if s[i] == '0' {
		i++
	} else if '1' <= s[i] && s[i] <= '9' {
		for i < len(s) && '0' <= s[i] && s[i] <= '9' {
			i++
		}
	} else {
		return false
	}
	if i < len(s) && s[i] == '.' {
		i++
		if i >= len(s) || s[i] < '0' || s[i] > '9' {
			return false
		}
		for i < len(s) && '0' <= s[i] && s[i] <= '9' {
			i++
		}
	}
	if i < len(s) && (s[i] == 'e' || s[i] == 'E') {
		i++
		if i < len(s) && (s[i] == '+' || s[i] == '-') {
			i++
		}
		if i >= len(s) || s[i] < '0' || s[i] > '9' {
			return false
		}
		for i < len(s) && '0' <= s[i] && s[i] <= '9' {
			i++
		}
	}
	return i == len(s)
}

func vjEnc(dst []byte, v interface{}, pretty bool, prefix, indent string, depth int, esc bool) ([]byte, error) {
	switch c := v.(type) {
	case nil:
		return append(dst, "null"...), nil
	case bool:
		if c {
			return append(dst, "true"...), nil
		}
		return append(dst, "false"...), nil
	case string:
		return vjString(dst, c, esc), nil
	case float64:
		if math.IsNaN(c) || math.IsInf(c, 0) {
			return dst, &json.UnsupportedValueError{Str: "NaN or Inf"} // the error type encoding/json returns
		}
		return append(dst, vFormatFloatJSON(c)...), nil
	case int:
		return append(dst, m_strconv_Itoa(c)...), nil
	case int64:
		return append(dst, m_strconv_Itoa(int(c))...), nil
	case json.Number:
		s := string(c)
		if s == "" {
			s = "0"
		}
		if !vjValidNumber(s) {
			return dst, vErrJSON
		}
		return append(dst, s...), nil
	case Map:
		return vjEnc(dst, map[string]interface{}(c), pretty, prefix, indent, depth, esc)
	case map[string]interface{}:
		if c == nil {
			return append(dst, "null"...), nil
		}
		dst = append(dst, '{')
		keys := vjSortedKeys(c)
		for i, k := range keys {
			if i > 0 {
				dst = append(dst, ',')
			}
			if pretty {
				dst = vjNewline(dst, prefix, indent, depth+1)
			}
			dst = vjString(dst, k, esc)
			dst = append(dst, ':')
			if pretty {
				dst = append(dst, ' ')
			}
			var err error
			dst, err = vjEnc(dst, c[k], pretty, prefix, indent, depth+1, esc)
			if err != nil {
				return dst, err
			}
		}
		if pretty && len(keys) > 0 {
			dst = vjNewline(dst, prefix, indent, depth)
		}
		return append(dst, '}'), nil
	case []interface{}:
		if c == nil {
			return append(dst, "null"...), nil
		}
		dst = append(dst, '[')
		for i, e := range c {
			if i > 0 {
				dst = append(dst, ',')
			}
			if pretty {
				dst = vjNewline(dst, prefix, indent, depth+1)
			}
			var err error
			dst, err = vjEnc(dst, e, pretty, prefix, indent, depth+1, esc)
			if err != nil {
				return dst, err
			}
		}
		if pretty && len(c) > 0 {
			dst = vjNewline(dst, prefix, indent, depth)
		}
		return append(dst, ']'), nil
	}
	vUnsupported("json.Marshal of a non-JSON Go type")
	return dst, vErrJSON
}

func m_json_Marshal(v interface{}) ([]byte, error) {
	b, err := vjEnc(nil, v, false, "", "", 0, true)
	if err != nil {
		return nil, err
	}
	return b, nil
}

func m_json_MarshalIndent(v interface{}, prefix, indent string) ([]byte, error) {
	b, err := vjEnc(nil, v, true, prefix, indent, 0, true)
	if err != nil {
		return nil, err
	}
	return b, nil
}

// ---- Encoder ----

type vjEncState struct {
	w              io.Writer
	noEscape       bool
	pretty         bool
	prefix, indent string
}

var vjEncoders = map[*json.Encoder]*vjEncState{}

func m_json_NewEncoder(w io.Writer) *json.Encoder {
	e := new(json.Encoder)
	vjEncoders[e] = &vjEncState{w: w}
	return e
}
func m_json_Encoder_SetEscapeHTML(e *json.Encoder, on bool) { vjEncoders[e].noEscape = !on }
func m_json_Encoder_SetIndent(e *json.Encoder, prefix, indent string) {
	s := vjEncoders[e]
	s.pretty = prefix != "" || indent != ""
	s.prefix, s.indent = prefix, indent
}
func m_json_Encoder_Encode(e *json.Encoder, v interface{}) error {
	s := vjEncoders[e]
	b, err := vjEnc(nil, v, s.pretty, s.prefix, s.indent, 0, !s.noEscape)
	if err != nil {
		return err
	}
	b = append(b, '\n')
	_, err = s.w.Write(b)
	return err
}

// ---- decoder ----

type vjDec struct {
	r         io.Reader
	buf       []byte // unread bytes already taken from r
	useNumber bool
	eof       bool
}

var vjDecoders = map[*json.Decoder]*vjDec{}

func m_json_NewDecoder(r io.Reader) *json.Decoder {
	d := new(json.Decoder)
	vjDecoders[d] = &vjDec{r: r}
	return d
}

func m_json_Decoder_UseNumber(d *json.Decoder) { vjDecoders[d].useNumber = true }

// fill reads everything available: mxj only hands complete in-memory documents
// (bytes.Reader) to json.Decoder, so the model reads to EOF.
func (s *vjDec) fill() error {
	if s.eof {
		return nil
	}
	tmp := make([]byte, 16)
	for {
		n, err := s.r.Read(tmp)
		s.buf = append(s.buf, tmp[:n]...)
		if err == io.EOF {
			s.eof = true
			return nil
		}
		if err != nil {
			return err
		}
	}
}

type vjParser struct {
	b         []byte
	i         int
	useNumber bool
}

func vjWS(c byte) bool { return c == ' ' || c == '\t' || c == '\r' || c == '\n' }

func (p *vjParser) skip() {
	for p.i < len(p.b) && vjWS(p.b[p.i]) {
		p.i++
	}
}

func (p *vjParser) lit(s string) bool {
	if p.i+len(s) <= len(p.b) && string(p.b[p.i:p.i+len(s)]) == s {
		p.i += len(s)
		return true
	}
	return false
}

func vjHexVal(c byte) int {
	switch {
	case '0' <= c && c <= '9':
		return int(c - '0')
	case 'a' <= c && c <= 'f':
		return int(c-'a') + 10
	case 'A' <= c && c <= 'F':
		return int(c-'A') + 10
	}
	return -1
}

func (p *vjParser) str() (string, bool) {
	if p.i >= len(p.b) || p.b[p.i] != '"' {
		return "", false
	}
	p.i++
	var out []byte
	for p.i < len(p.b) {
		c := p.b[p.i]
		switch {
		case c == '"':
			p.i++
			return string(out), true
		case c == '\\':
			p.i++
			if p.i >= len(p.b) {
				return "", false
			}
			e := p.b[p.i]
			p.i++
			switch e {
			case '"', '\\', '/':
				out = append(out, e)
			case 'b':
				out = append(out, '\b')
			case 'f':
				out = append(out, '\f')
			case 'n':
				out = append(out, '\n')
			case 'r':
				out = append(out, '\r')
			case 't':
				out = append(out, '\t')
			case 'u':
				if p.i+4 > len(p.b) {
					return "", false
				}
				r := 0
				for k := 0; k < 4; k++ {
					h := vjHexVal(p.b[p.i+k])
					if h < 0 {
						return "", false
					}
					r = r*16 + h
				}
				p.i += 4
				if r >= 0xD800 && r < 0xE000 {
					vUnsupported("jsonlite: surrogate escapes")
				}
				switch {
				case r < 0x80:
					out = append(out, byte(r))
				case r < 0x800:
					out = append(out, byte(0xC0|r>>6), byte(0x80|r&0x3F))
				default:
					out = append(out, byte(0xE0|r>>12), byte(0x80|(r>>6)&0x3F), byte(0x80|r&0x3F))
				}
			default:
				return "", false
			}
		case c < 0x20:
			return "", false
		case c >= 0x80:
			vUnsupported("jsonlite: non-ASCII byte in a JSON string")
		default:
			out = append(out, c)
			p.i++
		}
	}
	return "", false
}

func (p *vjParser) value(depth int) (interface{}, bool) {
	if depth > 12 {
		vUnsupported("jsonlite: nesting deeper than 12")
	}
	p.skip()
	if p.i >= len(p.b) {
		return nil, false
	}
	switch c := p.b[p.i]; {
	case c == '{':
		p.i++
		m := map[string]interface{}{}
		p.skip()
		if p.i < len(p.b) && p.b[p.i] == '}' {
			p.i++
			return m, true
		}
		for {
			p.skip()
			k, ok := p.str()
			if !ok {
				return nil, false
			}
			p.skip()
			if p.i >= len(p.b) || p.b[p.i] != ':' {
				return nil, false
			}
			p.i++
			v, ok := p.value(depth + 1)
			if !ok {
				return nil, false
			}
			m[k] = v
			p.skip()
			if p.i >= len(p.b) {
				return nil, false
			}
			if p.b[p.i] == ',' {
				p.i++
				continue
			}
			if p.b[p.i] == '}' {
				p.i++
				return m, true
			}
			return nil, false
		}
	case c == '[':
		p.i++
		l := []interface{}{}
		p.skip()
		if p.i < len(p.b) && p.b[p.i] == ']' {
			p.i++
			return l, true
		}
		for {
			v, ok := p.value(depth + 1)
			if !ok {
				return nil, false
			}
			l = append(l, v)
			p.skip()
			if p.i >= len(p.b) {
				return nil, false
			}
			if p.b[p.i] == ',' {
				p.i++
				continue
			}
			if p.b[p.i] == ']' {
				p.i++
				return l, true
			}
			return nil, false
		}
	case c == '"':
		s, ok := p.str()
		return s, ok
	case c == 't':
		return true, p.lit("true")
	case c == 'f':
		return false, p.lit("false")
	case c == 'n':
		return nil, p.lit("null")
	case c == '-' || ('0' <= c && c <= '9'):
		start := p.i
		for p.i < len(p.b) {
			d := p.b[p.i]
			if ('0' <= d && d <= '9') || d == '-' || d == '+' || d == '.' || d == 'e' || d == 'E' {
				p.i++
				continue
			}
			break
		}
		s := string(p.b[start:p.i])
		if !vjValidNumber(s) {
			return nil, false
		}
		if p.useNumber {
			return json.Number(s), true
		}
		f, err := strconv.ParseFloat(s, 64)
		if err != nil {
			return nil, false
		}
		return f, true
	}
	return nil, false
}

// vjDecodeInto stores a decoded first value through the pointer the caller passed.
func vjDecodeInto(val interface{}, target interface{}) error {
	switch t := target.(type) {
	case *map[string]interface{}:
		if val == nil {
			*t = nil
			return nil
		}
		m, ok := val.(map[string]interface{})
		if !ok {
			return vErrJSON // cannot unmarshal a non-object into a map
		}
		// encoding/json decodes into the existing map
		if *t == nil {
			*t = map[string]interface{}{}
		}
		for k, v := range m {
			(*t)[k] = v
		}
		return nil
	case *interface{}:
		*t = val
		return nil
	case *[]interface{}:
		if val == nil {
			*t = nil
			return nil
		}
		l, ok := val.([]interface{})
		if !ok {
			return vErrJSON
		}
		*t = l
		return nil
	case *Map:
		if val == nil {
			*t = nil
			return nil
		}
		m, ok := val.(map[string]interface{})
		if !ok {
			return vErrJSON
		}
		if *t == nil {
			*t = Map{}
		}
		for k, v := range m {
			(*t)[k] = v
		}
		return nil
	}
	vUnsupported("jsonlite: decode target type")
	return vErrJSON
}

func m_json_Decoder_Decode(d *json.Decoder, target interface{}) error {
	s := vjDecoders[d]
	if err := s.fill(); err != nil {
		return err
	}
	p := &vjParser{b: s.buf, useNumber: s.useNumber}
	p.skip()
	if p.i >= len(p.b) {
		return io.EOF
	}
	val, ok := p.value(0)
	if !ok {
		return vErrJSON
	}
	s.buf = s.buf[p.i:]
	return vjDecodeInto(val, target)
}

func m_json_Unmarshal(data []byte, target interface{}) error {
	p := &vjParser{b: data}
	val, ok := p.value(0)
	if !ok {
		return vErrJSON
	}
	p.skip()
	if p.i != len(p.b) {
		return vErrJSON
	}
	return vjDecodeInto(val, target)
}

// json.Number is a string type; its accessors
func m_json_Number_String(n json.Number) string { return string(n) }
