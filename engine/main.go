package main

import (
	"encoding/json"
	"flag"
	"math"
	"fmt"
	"os"
	"runtime"
	"runtime/debug"
	"runtime/pprof"
	"sort"
	"strconv"
	"strings"
	"time"
)

func main() {
	debug.SetGCPercent(800)
	if len(os.Args) < 2 {
		fmt.Fprintln(os.Stderr, "usage: symgo run|check|replay ...")
		os.Exit(2)
	}
	switch os.Args[1] {
	case "run":
		cmdRun(os.Args[2:])
	case "check":
		os.Exit(cmdCheck(os.Args[2:]))
	case "replay":
		os.Exit(cmdReplay(os.Args[2:]))
	default:
		fmt.Fprintln(os.Stderr, "unknown command", os.Args[1])
		os.Exit(2)
	}
}

func cmdRun(args []string) {
	fs := flag.NewFlagSet("run", flag.ExitOnError)
	repo := fs.String("repo", "/repo", "repository root")
	hdir := fs.String("harness-dir", verifRoot+"/harness", "harness directory")
	pkgs := fs.String("pkgs", ".", "comma separated package dirs")
	hs := fs.String("h", "", "comma separated harness functions")
	tier := fs.String("tier", "quick", "tier")
	workers := fs.Int("j", runtime.NumCPU(), "workers")
	maxPaths := fs.Int("max-paths", 0, "path budget (0 = none)")
	timeout := fs.Duration("timeout", 10*time.Minute, "per-harness timeout")
	solver := fs.String("solver", "z3 -in", "solver command")
	verbose := fs.Bool("v", false, "verbose")
	prof := fs.String("cpuprofile", "", "write cpu profile")
	params := fs.String("params", "", "harness parameters k=v,k=v (see vParam)")
	estimate := fs.Int("estimate", 0, "estimate the number of paths from this many random probes instead of exploring")
	fs.Parse(args)
	if *prof != "" {
		f, _ := os.Create(*prof)
		pprof.StartCPUProfile(f)
		defer pprof.StopCPUProfile()
	}
	t0 := time.Now()
	e, err := LoadEngine(*repo, *hdir, strings.Split(*pkgs, ","))
	if err != nil {
		fmt.Fprintln(os.Stderr, "load:", err)
		os.Exit(2)
	}
	e.tier = *tier
	e.workers = *workers
	e.solverArgv = strings.Fields(*solver)
	e.loadKnown(verifRoot + "/known_findings.json")
	if *params != "" {
		e.params = map[string]int{}
		for _, kv := range strings.Split(*params, ",") {
			if i := strings.IndexByte(kv, '='); i > 0 {
				n, _ := strconv.Atoi(kv[i+1:])
				e.params[kv[:i]] = n
			}
		}
	}
	fmt.Fprintf(os.Stderr, "loaded in %.1fs\n", time.Since(t0).Seconds())
	for _, name := range strings.Split(*hs, ",") {
		e.paramSeen = nil
		e.estimate = *estimate
		h := e.RunHarness(name, *maxPaths, *timeout)
		printRun(h, *verbose)
		if *estimate > 0 && h.Paths > 0 {
			n := float64(h.Paths)
			mean := h.EstSum / n
			sd := math.Sqrt(math.Max(0, h.EstSq/n-mean*mean) / n)
			fmt.Printf("   ESTIMATE paths=%.0f stderr=%.0f probes=%d cpu_s_per_path=%.5f\n", mean, sd, h.Paths, h.Wall.Seconds()*float64(e.workers)/n)
		}
		var ps []string
		for k, v := range e.paramSeen {
			ps = append(ps, fmt.Sprintf("%s=%d/%d", k, v[0], v[1]))
		}
		sort.Strings(ps)
		fmt.Printf("   params(value/default): %s\n", strings.Join(ps, ","))
	}
}

func printRun(h *HarnessRun, verbose bool) {
	fmt.Printf("== %s: paths=%d completed=%d pruned=%d infeasible=%d panics=%d violations=%d decisions=%d steps=%d wall=%.1fs solver[q=%d sat=%d unsat=%d unk=%d err=%d t=%.1fs max=%.0fms]\n",
		h.Name, h.Paths, h.Completed, h.Pruned, h.Infeas, h.Panics, len(h.Viol), h.Decisions, h.Steps, h.Wall.Seconds(),
		h.Solver.Queries, h.Solver.Sat, h.Solver.Unsat, h.Solver.Unknown, h.Solver.Errors, h.Solver.Time.Seconds(), float64(h.Solver.MaxTime.Milliseconds()))
	if h.Truncated {
		fmt.Println("   TRUNCATED (budget)")
	}
	fmt.Printf("   queries by kind: %v\n", h.Solver.ByKind)
	pm := func(title string, m map[string]int) {
		if len(m) == 0 {
			return
		}
		var ks []string
		for k := range m {
			ks = append(ks, k)
		}
		sort.Strings(ks)
		fmt.Printf("   %s:\n", title)
		for _, k := range ks {
			fmt.Printf("      %6d  %s\n", m[k], k)
		}
	}
	pm("unsupported", h.Unsupp)
	pm("limits", h.Limits)
	pm("covers", h.Covers)
	pm("asserts", h.Asserts)
	pm("known", h.Known)
	for _, v := range h.Viol {
		b, _ := json.Marshal(v.Tape)
		fmt.Printf("   VIOL %s [%s] %s\n      tape=%s\n", v.Kind, v.Label, v.Msg, string(b))
	}
	if verbose {
		for _, s := range h.Samples {
			fmt.Println("   sample:", s)
		}
		pm("funcs", h.Funcs)
	}
}

func (e *Engine) loadKnown(path string) {
	b, err := os.ReadFile(path)
	if err != nil {
		return
	}
	var doc struct {
		Findings []struct {
			ID     string `json:"id"`
			Status string `json:"status"`
		} `json:"findings"`
	}
	if json.Unmarshal(b, &doc) != nil {
		return
	}
	for _, f := range doc.Findings {
		if f.Status == "known" {
			e.known[f.ID] = true
		}
	}
}
