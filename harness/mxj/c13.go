package mxj

import (
	"encoding/xml"
	"io"
)

func init() {
	vHarnesses["H_C13_adaptors"] = H_C13_adaptors
	vHarnesses["H_C13_xml"] = H_C13_xml
	vHarnesses["H_C13_json"] = H_C13_json
	vHarnesses["H_C13_getjson"] = H_C13_getjson
	vHarnesses["H_C13_handlers"] = H_C13_handlers
	vHarnesses["H_C13_handlers_raw"] = H_C13_handlers_raw
	vHarnesses["H_C13_stalls"] = H_C13_stalls
	vHarnesses["H_C13_charset"] = H_C13_charset
	vHarnesses["H_C13_stop"] = H_C13_stop
	vHarnesses["H_C13_prolog"] = H_C13_prolog
}

func vNondetSched(data []byte) *vSchedReader {
	return &vSchedReader{data: data, zeroBudget: vChoose(2), eofWithData: vChoose(2) == 1}
}

// (a) the single-byte adaptors obey the io.ByteReader contract under every schedule
func H_C13_adaptors() {
	n := 1 + vChoose(3)
	data := []byte(vNondetString(n, n, ""))
	src := vNondetSched(data)
	tee := vChoose(2) == 1
	var br io.ByteReader
	w := &vWriter{}
	if tee {
		br = myTeeReader(src, w).(io.ByteReader)
		vCover("tee")
	} else {
		br = myByteReader(src).(io.ByteReader)
		vCover("byte")
	}
	var got []byte
	for i := 0; i < n+2; i++ {
		b, err := br.ReadByte()
		if err != nil {
			vAssert(len(got) == n, "adaptor: an error is reported only after every byte of the stream has been handed out")
			vAssert(err == io.EOF, "adaptor: the end of the stream is io.EOF")
			break
		}
		vAssert(len(got) < n, "adaptor: no byte is invented after the end of the stream")
		vAssert(b == data[len(got)], "adaptor: bytes are handed out exactly in stream order")
		got = append(got, b)
	}
	vAssert(len(got) == n, "adaptor: no byte of the stream is dropped")
	if tee {
		vAssert(string(w.buf) == string(got), "adaptor: the tee buffer holds exactly the bytes handed out")
	}
}

type vDocSpec struct {
	text string
	doc  string
}

func vNondetXmlDocs() (stream string, docs []string) {
	n := 1 + vChoose(2)
	for i := 0; i < n; i++ {
		name := vNondetString(1, 1, "ab")
		var d string
		switch vChoose(3) {
		case 0:
			d = "<" + name + ">" + vNondetString(1, 1, "xy") + "</" + name + ">"
		case 1:
			d = "<" + name + "/>"
		default:
			d = "<" + name + " k=\"1\"><c/></" + name + ">"
		}
		docs = append(docs, d)
		stream += d
		stream += []string{"", "\n", " "}[vChoose(3)]
	}
	return
}

func vContainsStr(h, n string) bool {
	for i := 0; i+len(n) <= len(h); i++ {
		if h[i:i+len(n)] == n {
			return true
		}
	}
	return false
}

// (b) XML and sequence-XML readers
func H_C13_xml() {
	vResetDecOpts()
	stream, docs := vNondetXmlDocs()
	src := vNondetSched([]byte(stream))
	form := vChoose(4)
	rawCat := ""
	for i, d := range docs {
		var got, want map[string]interface{}
		var err error
		var raw []byte
		switch form {
		case 0:
			var m Map
			m, err = NewMapXmlReader(src)
			got = m
			wm, _ := NewMapXml([]byte(d))
			want = wm
		case 1:
			var m Map
			m, raw, err = NewMapXmlReaderRaw(src)
			got = m
			wm, _ := NewMapXml([]byte(d))
			want = wm
		case 2:
			var m MapSeq
			m, err = NewMapXmlSeqReader(src)
			got = m
			wm, _ := NewMapXmlSeq([]byte(d))
			want = wm
		default:
			var m MapSeq
			m, raw, err = NewMapXmlSeqReaderRaw(src)
			got = m
			wm, _ := NewMapXmlSeq([]byte(d))
			want = wm
		}
		vAssert(err == nil, "xml reader: each document of the stream is decoded under every delivery schedule")
		vAssert(vDeepEq(got, want), "xml reader: the Map equals the one obtained by decoding the document's bytes directly")
		if form == 1 || form == 3 {
			vAssert(vContainsStr(string(raw), d), "xml reader: the raw value contains its document")
			rawCat += string(raw)
			vAssert(len(rawCat) <= len(stream) && stream[:len(rawCat)] == rawCat, "xml reader: raw values concatenate to a prefix of the stream (no over-read, nothing lost)")
		}
		_ = i
	}
	var err error
	switch form {
	case 0:
		_, err = NewMapXmlReader(src)
	case 1:
		_, _, err = NewMapXmlReaderRaw(src)
	case 2:
		_, err = NewMapXmlSeqReader(src)
	default:
		_, _, err = NewMapXmlSeqReaderRaw(src)
	}
	vAssert(err == io.EOF, "xml reader: after the last document the reader reports io.EOF")
	vCover("xml")
	if len(docs) > 1 {
		vCover("two")
	}
}

func vNondetJsonDocs() (stream string, docs []string) {
	n := 1 + vChoose(2)
	for i := 0; i < n; i++ {
		var d string
		switch vChoose(6) {
		case 5:
			d = `{"a":"x\\"}` // value ends in an escaped backslash
			if vChoose(2) == 1 {
				d = `{"a\\":"\\\\"}`
			}
		case 4:
			d = "{\"a\":\"x\\\"\"}" // value ends in an escaped quote
		case 0:
			d = "{\"a\":\"" + vNondetString(1, 1, "x{}") + "\"}"
		case 1:
			d = "{\"a\":{\"b\":1}}"
		case 2:
			d = "{\"a\":\"x\\\\\"}" // value ends in an escaped backslash
		default:
			d = "{\"a\":\"q\\\"}\"}" // value contains an escaped quote and a brace
		}
		docs = append(docs, d)
		stream += d
		stream += []string{"", "\n", " "}[vChoose(3)]
	}
	return
}

// (c) JSON readers
func H_C13_json() {
	stream, docs := vNondetJsonDocs()
	src := vNondetSched([]byte(stream))
	rawForm := vChoose(2) == 1
	for _, d := range docs {
		want, werr := NewMapJson([]byte(d))
		vAssume(werr == nil)
		var got Map
		var raw []byte
		var err error
		if rawForm {
			got, raw, err = NewMapJsonReaderRaw(src)
		} else {
			got, err = NewMapJsonReader(src)
		}
		vAssert(err == nil, "json reader: each object of the stream is decoded under every delivery schedule")
		vAssert(vDeepEq(map[string]interface{}(got), map[string]interface{}(want)), "json reader: the Map equals the one obtained by decoding the object's bytes directly")
		if rawForm {
			vAssert(string(raw) == d, "json reader: the raw value is the object's text")
		}
	}
	var err error
	if rawForm {
		_, _, err = NewMapJsonReaderRaw(src)
	} else {
		_, err = NewMapJsonReader(src)
	}
	vAssert(err == io.EOF, "json reader: after the last object the reader reports io.EOF")
	vCover("json")
	if len(docs) > 1 {
		vCover("two")
	}
}

// (c) the object scanner on free bytes against a reference splitter with proper escape tracking
func refGetJSON(s []byte) (obj []byte, rest []byte, ok bool) {
	depth := 0
	inQ, esc, started := false, false, false
	var out []byte
	for i, c := range s {
		if inQ {
			out = append(out, c)
			switch {
			case esc:
				esc = false
			case c == '\\':
				esc = true
			case c == '"':
				inQ = false
			}
			continue
		}
		switch c {
		case '{':
			depth++
			started = true
		case '}':
			depth--
			if depth < 0 {
				return nil, nil, false
			}
		case '"':
			if started {
				inQ = true
			}
		case ' ', '\n', '\r', '\t':
			continue
		}
		if started {
			out = append(out, c)
			if depth == 0 {
				return out, s[i+1:], true
			}
		}
	}
	return nil, nil, false
}

func H_C13_getjson() {
	n := vP("bytes", 6, 8)
	body := vNondetString(0, n-2, "{}\"\\ x")
	stream := []byte("{" + body + "}" + "{\"z\":1}")
	wantObj, _, ok := refGetJSON(stream)
	vAssume(ok)
	src := vNondetSched(stream)
	jb, err := getJson(src)
	vAssert(err == nil, "getJson: a complete object is returned under every schedule")
	vAssert(string(*jb) == string(wantObj), "getJson: exactly the bytes of the first object (strings tracked with proper escapes), white space outside strings removed")
	vCover("getjson")
}

// bulk handlers: once per document, in order, stop on false
func H_C13_handlers() {
	vResetDecOpts()
	xml := vChoose(2) == 1
	var stream string
	var docs []string
	if xml {
		stream, docs = vNondetXmlDocs()
	} else {
		stream, docs = vNondetJsonDocs()
	}
	src := vNondetSched([]byte(stream))
	stopAt := vChoose(len(docs) + 1) // handler returns false at this call (len(docs): never)
	calls := 0
	okAll := true
	mh := func(m Map) bool {
		var want Map
		if calls < len(docs) {
			if xml {
				want, _ = NewMapXml([]byte(docs[calls]))
			} else {
				want, _ = NewMapJson([]byte(docs[calls]))
			}
			if !vDeepEq(map[string]interface{}(m), map[string]interface{}(want)) {
				okAll = false
			}
		} else {
			okAll = false
		}
		calls++
		return calls-1 != stopAt
	}
	errs := 0
	eh := func(error) bool { errs++; return false }
	var err error
	if xml {
		err = HandleXmlReader(src, mh, eh)
	} else {
		err = HandleJsonReader(src, mh, eh)
	}
	vAssert(err == nil && errs == 0, "handlers: no error on a well-formed stream")
	want := len(docs)
	if stopAt < len(docs) {
		want = stopAt + 1
	}
	vAssert(calls == want, "handlers: the map handler is invoked once per document and processing stops when it returns false")
	vAssert(okAll, "handlers: the handler receives the documents' Maps in order")
	vCover("handlers")
}

// raw bulk handlers: the raw values handed to the handler stay valid after later documents are read
func H_C13_handlers_raw() {
	vResetDecOpts()
	xml := vChoose(2) == 1
	var stream string
	var docs []string
	if xml {
		stream, docs = vNondetXmlDocs()
	} else {
		stream, docs = vNondetJsonDocs()
	}
	src := vNondetSched([]byte(stream))
	var raws [][]byte
	var maps []Map
	stopAt := vChoose(len(docs) + 1) // the handler returns false at this call (len(docs): never)
	mh := func(m Map, raw []byte) bool {
		maps = append(maps, m)
		raws = append(raws, raw) // kept by the caller
		return len(maps)-1 != stopAt
	}
	eh := func(error, []byte) bool { return false }
	var err error
	if xml {
		err = HandleXmlReaderRaw(src, mh, eh)
	} else {
		err = HandleJsonReaderRaw(src, mh, eh)
	}
	vAssert(err == nil, "raw handlers: no error on a well-formed stream")
	wantCalls := len(docs)
	if stopAt < len(docs) {
		wantCalls = stopAt + 1
	}
	vAssert(len(maps) == wantCalls, "raw handlers: the handler is invoked once per document, and no more once it has returned false")
	cat := ""
	for i := range raws {
		vAssert(vContainsStr(string(raws[i]), docs[i]) || !xml, "raw handlers: each raw value still contains its document after the whole stream has been read")
		if !xml {
			vAssert(string(raws[i]) == docs[i], "raw handlers: each raw value is still the object's text after the whole stream has been read")
		}
		cat += string(raws[i])
	}
	if xml {
		vAssert(len(cat) <= len(stream) && stream[:len(cat)] == cat, "raw handlers: raw values concatenate to a prefix of the stream")
	}
	vCover("raw")
}

// vStallReader delivers one byte per successful Read and returns (0, nil) k times before each
// of them: legal for an io.Reader, and never many empty reads in a row
type vStallReader struct {
	b       []byte
	i, k, c int
}

func (r *vStallReader) Read(p []byte) (int, error) {
	if r.i >= len(r.b) {
		return 0, io.EOF
	}
	if len(p) == 0 {
		return 0, nil
	}
	if r.c < r.k {
		r.c++
		return 0, nil
	}
	r.c = 0
	p[0] = r.b[r.i]
	r.i++
	return 1, nil
}

// long documents and long blank runs through a reader that stalls before every byte: the
// total number of empty reads is large, the number in a row is small
func H_C13_stalls() {
	vResetDecOpts()
	k := 1 + vChoose(2)
	long := ""
	for i := 0; i < 110; i++ {
		long += "x"
	}
	gap := ""
	for i := 0; i < 60; i++ {
		gap += []string{" ", "\n"}[i%2]
	}
	form := vChoose(4)
	switch form {
	case 0, 1:
		rd := &vStallReader{b: []byte("{\"a\":\"" + long + "\"}" + gap + "{\"b\":\"" + vNondetString(1, 1, "yz") + "\"}"), k: k}
		var m1, m2 Map
		var e1, e2, e3 error
		if form == 0 {
			m1, e1 = NewMapJsonReader(rd)
			m2, e2 = NewMapJsonReader(rd)
			_, e3 = NewMapJsonReader(rd)
		} else {
			m1, _, e1 = NewMapJsonReaderRaw(rd)
			m2, _, e2 = NewMapJsonReaderRaw(rd)
			_, _, e3 = NewMapJsonReaderRaw(rd)
		}
		vAssert(e1 == nil && m1["a"] == long, "stalls: a long JSON document is read through a stalling reader")
		_, hasB := m2["b"]
		vAssert(e2 == nil && hasB && len(m2) == 1, "stalls: the document after a long blank run is read")
		vAssert(e3 == io.EOF, "stalls: then io.EOF")
		vCover("json")
	default:
		rd := &vStallReader{b: []byte("<a>" + long + "</a>" + gap + "<b>" + vNondetString(1, 1, "yz") + "</b>"), k: k}
		var m1, m2 Map
		var e1, e2, e3 error
		if form == 2 {
			m1, e1 = NewMapXmlReader(rd)
			m2, e2 = NewMapXmlReader(rd)
			_, e3 = NewMapXmlReader(rd)
		} else {
			m1, _, e1 = NewMapXmlReaderRaw(rd)
			m2, _, e2 = NewMapXmlReaderRaw(rd)
			_, _, e3 = NewMapXmlReaderRaw(rd)
		}
		vAssert(e1 == nil && m1["a"] == long, "stalls: a long XML document is read through a stalling reader")
		_, hasB := m2["b"]
		vAssert(e2 == nil && hasB && len(m2) == 1, "stalls: the document after a long blank run is read")
		vAssert(e3 == io.EOF, "stalls: then io.EOF")
		vCover("xml")
	}
}

// a CustomDecoder with a CharsetReader is honoured by the reader forms exactly as by the byte forms
func H_C13_charset() {
	vResetDecOpts()
	CustomDecoder = &xml.Decoder{CharsetReader: func(label string, in io.Reader) (io.Reader, error) { return in, nil }}
	doc := []byte("<?xml version=\"1.0\" encoding=\"ISO-8859-1\"?><a>" + vNondetString(1, 1, "xy") + "</a>")
	var m1, m2 map[string]interface{}
	var e1, e2 error
	switch vChoose(3) {
	case 0:
		var a, b Map
		a, e1 = NewMapXml(doc)
		b, e2 = NewMapXmlReader(vNondetSched(doc))
		m1, m2 = a, b
	case 1:
		var a, b Map
		a, e1 = NewMapXml(doc)
		b, _, e2 = NewMapXmlReaderRaw(vNondetSched(doc))
		m1, m2 = a, b
	default:
		var a, b MapSeq
		a, e1 = NewMapXmlSeq(doc)
		b, e2 = NewMapXmlSeqReader(vNondetSched(doc))
		m1, m2 = a, b
	}
	CustomDecoder = nil
	// (the sequence decoder hands out the XML declaration first, with its documented no-root error)
	vAssert(e1 == nil || e1 == NoRoot, "charset: the byte form decodes a document that declares another encoding when a CharsetReader is configured")
	vAssert(e2 == e1 && vDeepEq(m1, m2), "charset: the reader form returns the same Map (and the same no-root indication) as the byte form")
	vCover("charset")
}

// vChunkReader delivers its data in chunks of n bytes
type vChunkReader struct {
	b    []byte
	i, n int
}

func (r *vChunkReader) Read(p []byte) (int, error) {
	if r.i >= len(r.b) {
		return 0, io.EOF
	}
	n := r.n
	if n > len(p) {
		n = len(p)
	}
	if n > len(r.b)-r.i {
		n = len(r.b) - r.i
	}
	copy(p, r.b[r.i:r.i+n])
	r.i += n
	return n, nil
}

// a bulk handler that stops leaves the reader positioned at the next document, whatever the
// size of the chunks the reader hands out
func H_C13_stop() {
	vResetDecOpts()
	chunk := []int{1, 7, 64}[vChoose(3)]
	c := vNondetString(1, 1, "yz")
	xml := vChoose(2) == 1
	raw := vChoose(2) == 1
	calls := 0
	var err error
	var next map[string]interface{}
	var nerr error
	if xml {
		rd := &vChunkReader{b: []byte("<a>1</a><b>" + c + "</b><c>3</c>"), n: chunk}
		if raw {
			err = HandleXmlReaderRaw(rd, func(Map, []byte) bool { calls++; return false }, func(error, []byte) bool { return false })
		} else {
			err = HandleXmlReader(rd, func(Map) bool { calls++; return false }, func(error) bool { return false })
		}
		var m Map
		m, nerr = NewMapXmlReader(rd)
		next = m
	} else {
		rd := &vChunkReader{b: []byte("{\"a\":1}{\"b\":\"" + c + "\"}{\"c\":3}"), n: chunk}
		if raw {
			err = HandleJsonReaderRaw(rd, func(Map, []byte) bool { calls++; return false }, func(error, []byte) bool { return false })
		} else {
			err = HandleJsonReader(rd, func(Map) bool { calls++; return false }, func(error) bool { return false })
		}
		var m Map
		m, nerr = NewMapJsonReader(rd)
		next = m
	}
	vAssert(err == nil && calls == 1, "stop: the handler is invoked once and processing stops when it returns false")
	vAssert(nerr == nil && len(next) == 1 && next["b"] == c, "stop: the reader is left at the next document (nothing was read ahead)")
	vCover("stop")
}

// items before the root (XML declaration, comment): the raw sequence reader returns what the
// plain sequence reader and the byte form return, Map and no-root indication alike
func H_C13_prolog() {
	vResetDecOpts()
	pre := []string{"<?xml version=\"1.0\"?>", "<!--c-->", "<!DOCTYPE a>"}[vChoose(3)]
	doc := []byte(pre + "<a>" + vNondetString(1, 1, "xy") + "</a>")
	m0, e0 := NewMapXmlSeq(doc)
	m1, e1 := NewMapXmlSeqReader(vNondetSched(doc))
	m2, raw, e2 := NewMapXmlSeqReaderRaw(vNondetSched(doc))
	vAssert(e0 == NoRoot && len(m0) == 1, "prolog: the byte form hands out the item before the root with the no-root indication")
	vAssert(e1 == e0 && vDeepEq(map[string]interface{}(m1), map[string]interface{}(m0)), "prolog: the reader form returns the same")
	vAssert(e2 == e0 && vDeepEq(map[string]interface{}(m2), map[string]interface{}(m0)), "prolog: the raw reader form returns the same Map with the error")
	vAssert(string(raw) == pre, "prolog: and the bytes of that item")
	vCover("prolog")
}
