package mxj

func init() {
	vHarnesses["H_C03_twice"] = H_C03_twice
}

// C03: the encoding follows the value as it is at the call (typed Maps, edited between calls)
func H_C03_twice() {
	vResetDecOpts()
	XMLEscapeChars(true)
	defer XMLEscapeChars(false)
	c1, c2 := vNondetString(1, 1, "xy"), vNondetString(1, 1, "zw")
	m := Map{"a": c1, "b": Map{"k": c1}}
	enc := func() []byte {
		var x []byte
		switch vChoose(3) {
		case 0:
			x, _ = AnyXml(m, "r")
		case 1:
			x, _ = AnyXmlIndent(m, "", " ", "r")
		default:
			x, _ = m.Xml("r")
		}
		return x
	}
	check := func(x []byte, want string) {
		d, err := NewMapXml(x)
		r, _ := d["r"].(map[string]interface{})
		b, _ := r["b"].(map[string]interface{})
		vAssert(err == nil && r["a"] == want && b["k"] == want, "twice: the encoding shows the values the Map holds at the call")
	}
	check(enc(), c1)
	m["a"] = c2
	m["b"].(Map)["k"] = c2
	check(enc(), c2)
	vCover("twice")
}
