package mxj

func init() {
	vHarnesses["H_C05_escape"] = H_C05_escape
	vHarnesses["H_C05_escape_seq"] = H_C05_escape_seq
	vHarnesses["H_C05_decoder"] = H_C05_decoder
	vHarnesses["H_C05_valid"] = H_C05_valid
}

// vNondetSpecial: a value assembled from pieces: the five special characters, already
// escaped sequences, CDATA delimiters and free bytes.
func vNondetSpecial(maxPieces int) string {
	pieces := []string{"&", "<", ">", "\"", "'", "&amp;", "&lt;", "&quot;", "&#x41;", "]]>", "<![CDATA["}
	n := vChoose(maxPieces + 1)
	v := ""
	for i := 0; i < n; i++ {
		k := vChoose(len(pieces) + 1)
		if k == len(pieces) {
			v += vNondetString(1, 1, "x ;")
		} else {
			v += pieces[k]
		}
	}
	return v
}

func vPieces() int {
	return vP("pieces", 3, 4)
}

func vEscOrder() {
	// both call orders of the coupled switches end in "encoder-side escaping on"
	if vChoose(2) == 0 {
		XMLEscapeCharsDecoder(false)
		XMLEscapeChars(true)
	} else {
		XMLEscapeChars(true)
		XMLEscapeCharsDecoder(false)
		XMLEscapeChars(true)
	}
}

// (a) encoder-side escaping, Map encoders
func H_C05_escape() {
	vResetDecOpts()
	v := vNondetSpecial(vPieces())
	vEscOrder()
	m := Map{"r": map[string]interface{}{"-a": v, "#text": v, "k": v}}
	var x []byte
	var err error
	if vChoose(2) == 1 {
		x, err = m.XmlIndent("", " ")
		vCover("indent")
	} else {
		x, err = m.Xml()
		vCover("compact")
	}
	XMLEscapeChars(false)
	vAssert(err == nil, "escape: encodes without error")
	vAssert(vSingleRoot(x), "escape: with value escaping the output is well formed")
	m2, derr := NewMapXml(x)
	vAssert(derr == nil, "escape: the output decodes")
	r, ok := m2["r"].(map[string]interface{})
	vAssert(ok, "escape: root is a map")
	vAssert(r["-a"] == v, "escape: the attribute value decodes back to exactly the string (no double escaping)")
	t := refTrim(v, false)
	if t == "" {
		_, has := r["#text"]
		vAssert(!has, "escape: blank text is dropped")
		vAssert(r["k"] == "", "escape: blank element value decodes as the empty string")
	} else {
		vAssert(r["#text"] == t, "escape: mixed-content text decodes back to the trimmed string")
		vAssert(r["k"] == t, "escape: element text decodes back to the trimmed string")
		vCover("nonblank")
	}
}

// (a) encoder-side escaping, MapSeq encoders
func H_C05_escape_seq() {
	vResetDecOpts()
	v := vNondetSpecial(vPieces())
	vEscOrder()
	ms := MapSeq{"r": map[string]interface{}{
		"#attr": map[string]interface{}{"a": map[string]interface{}{"#text": v, "#seq": 0}},
		"k":     map[string]interface{}{"#text": v, "#seq": 0}}}
	var x []byte
	var err error
	if vChoose(2) == 1 {
		x, err = ms.XmlIndent("", " ")
		vCover("indent")
	} else {
		x, err = ms.Xml()
		vCover("compact")
	}
	XMLEscapeChars(false)
	vAssert(err == nil, "escape(seq): encodes without error")
	vAssert(vSingleRoot(x), "escape(seq): with value escaping the output is well formed")
	m2, derr := NewMapXmlSeq(x)
	vAssert(derr == nil, "escape(seq): the output decodes")
	r, ok := m2["r"].(map[string]interface{})
	vAssert(ok, "escape(seq): root is a map")
	at, _ := r["#attr"].(map[string]interface{})
	aa, _ := at["a"].(map[string]interface{})
	vAssert(aa["#text"] == v, "escape(seq): the attribute value decodes back to exactly the string")
	t := refTrim(v, false)
	if t == "" {
		vAssert(r["k"] == "" || vIsEmptySeqElem(r["k"]), "escape(seq): blank element value decodes as an empty element")
	} else {
		k, _ := r["k"].(map[string]interface{})
		vAssert(k["#text"] == t, "escape(seq): element text decodes back to the trimmed string")
		vCover("nonblank")
	}
}

func vIsEmptySeqElem(v interface{}) bool {
	m, ok := v.(map[string]interface{})
	if !ok {
		return false
	}
	t, has := m["#text"]
	return (!has || t == "") && len(m) <= 2
}

// (b) decoder-side escaping: decode then encode reproduces the original escaped values
func H_C05_decoder() {
	vResetDecOpts()
	v := vNondetSpecial(vPieces())
	doc := "<r a=\"" + vEscText(v, true) + "\" p:b=\"" + vEscText(v, true) + "\"><k>" + vEscText(v, false) + "</k></r>"
	if vChoose(2) == 0 {
		XMLEscapeChars(true) // switched off again by the decoder switch
	}
	XMLEscapeCharsDecoder(true)
	var x []byte
	var err, derr error
	if vChoose(2) == 0 {
		var m Map
		m, derr = NewMapXml([]byte(doc))
		if derr == nil {
			x, err = m.Xml()
		}
		vCover("map")
	} else {
		var m MapSeq
		m, derr = NewMapXmlSeq([]byte(doc))
		if derr == nil {
			x, err = m.Xml()
		}
		vCover("seq")
	}
	XMLEscapeCharsDecoder(false)
	vAssert(derr == nil && err == nil, "decoder-escaping: decode and encode succeed")
	vAssert(vSingleRoot(x), "decoder-escaping: the re-encoded document is well formed")
	m2, e2 := NewMapXml(x)
	vAssert(e2 == nil, "decoder-escaping: the re-encoded document decodes")
	r, _ := m2["r"].(map[string]interface{})
	vAssert(r["-a"] == v, "decoder-escaping: the attribute value is reproduced")
	vAssert(r["-b"] == v, "decoder-escaping: the value of a namespace-prefixed attribute is reproduced")
	t := refTrim(v, false)
	if t == "" {
		vAssert(r["k"] == "", "decoder-escaping: blank element value stays empty")
	} else {
		vAssert(r["k"] == t, "decoder-escaping: the element value is reproduced")
		vCover("nonblank")
	}
}

// (c) escaping off, validity checking on: well-formed output or an error, never silence
func H_C05_valid() {
	vResetDecOpts()
	v := vNondetSpecial(vPieces())
	XMLEscapeChars(false)
	XMLEscapeCharsDecoder(false)
	XmlCheckIsValid(true)
	var x []byte
	var err error
	series := false
	pos := vChoose(2)
	enc := vChoose(4)
	switch enc {
	case 0, 1:
		var m Map
		if pos == 0 {
			switch vChoose(4) {
			case 3: // a single key holding a list of maps is a series of elements: all of them are checked
				m = Map{"r": []interface{}{map[string]interface{}{"k": "x"}, map[string]interface{}{"k": v}}}
				series = true
			case 0:
				m = Map{"r": map[string]interface{}{"k": v}}
			case 1:
				m = Map{"r": []interface{}{v, "x"}} // one-key map holding a list with a scalar member
			default:
				m = Map{"r": v, "s": []interface{}{v}}
			}
		} else {
			m = Map{"r": map[string]interface{}{"-a": v, "k": "x"}}
		}
		if enc == 0 {
			x, err = m.Xml()
			vCover("map")
		} else {
			x, err = m.XmlIndent("", " ")
			vCover("map-indent")
		}
	default:
		var ms MapSeq
		if pos == 0 {
			ms = MapSeq{"r": map[string]interface{}{"k": map[string]interface{}{"#text": v, "#seq": 0}}}
		} else {
			ms = MapSeq{"r": map[string]interface{}{"#attr": map[string]interface{}{"a": map[string]interface{}{"#text": v, "#seq": 0}},
				"k": map[string]interface{}{"#text": "x", "#seq": 0}}}
		}
		if enc == 2 {
			x, err = ms.Xml()
			vCover("seq")
		} else {
			x, err = ms.XmlIndent("", " ")
			vCover("seq-indent")
		}
	}
	XmlCheckIsValid(false)
	if err == nil && series {
		_, tokOK := vRawTokens(x)
		vAssert(tokOK, "valid: with validity checking on, every element of a series is well formed or an error is returned")
		vCover("accepted")
	} else if err == nil {
		vAssert(vSingleRoot(x), "valid: with validity checking on, an encoder returns well-formed XML or an error")
		vCover("accepted")
	} else {
		vCover("rejected")
	}
}
