package mxj

import (
	"bytes"
	"encoding/xml"
	"io"
)

func init() {
	vHarnesses["H_C04_seq"] = H_C04_seq
	vHarnesses["H_C04_seq_nested"] = H_C04_seq_nested
	vHarnesses["H_C04_seq_attrs"] = H_C04_seq_attrs
	vHarnesses["H_C04_seq_extras"] = H_C04_seq_extras
}

type vTok struct {
	kind  int // 0 start, 1 end, 2 text, 3 comment, 4 procinst, 5 directive
	name  string
	attrs [][2]string
	text  string
}

// vRawTokens tokenises with the real RawToken; blank text is dropped, text is trimmed.
func vRawTokens(b []byte) ([]vTok, bool) {
	d := xml.NewDecoder(bytes.NewReader(b))
	var out []vTok
	for {
		t, err := d.RawToken()
		if err == io.EOF {
			return out, true
		}
		if err != nil {
			return out, false
		}
		qn := func(n xml.Name) string {
			if n.Space != "" {
				return n.Space + ":" + n.Local
			}
			return n.Local
		}
		switch c := t.(type) {
		case xml.StartElement:
			tk := vTok{kind: 0, name: qn(c.Name)}
			for _, a := range c.Attr {
				tk.attrs = append(tk.attrs, [2]string{qn(a.Name), a.Value})
			}
			out = append(out, tk)
		case xml.EndElement:
			out = append(out, vTok{kind: 1, name: qn(c.Name)})
		case xml.CharData:
			s := refTrim(string(c), false)
			if s != "" {
				out = append(out, vTok{kind: 2, text: s})
			}
		case xml.Comment:
			out = append(out, vTok{kind: 3, text: string(c)})
		case xml.ProcInst:
			out = append(out, vTok{kind: 4, name: c.Target, text: string(c.Inst)})
		case xml.Directive:
			out = append(out, vTok{kind: 5, text: string(c)})
		}
	}
}

func vSameToks(a, b []vTok) bool {
	if len(a) != len(b) {
		return false
	}
	for i := range a {
		if a[i].kind != b[i].kind || a[i].name != b[i].name || a[i].text != b[i].text || len(a[i].attrs) != len(b[i].attrs) {
			return false
		}
		for j := range a[i].attrs {
			if a[i].attrs[j] != b[i].attrs[j] {
				return false
			}
		}
	}
	return true
}

type vSeqSpec struct {
	goEmpty   bool // also run with XmlGoEmptyElemSyntax
	keyPrefix bool // also run with other prefixes of the reserved keys (SetGlobalKeyMapPrefix)
	depth, maxKids, maxAttrs int
	nameAlpha                string
	extras                   bool // comment / PI / directive
	prefixes                 bool
	text                     bool
}

// vNondetSeqDoc renders a document in the C04 domain and reports whether some element
// has non-blank text beside other content (the known-finding region).
func vNondetSeqDoc(s vSeqSpec, depth int) (doc string, mixed bool) {
	name := vNondetString(1, 1, s.nameAlpha)
	if s.prefixes && vChoose(2) == 1 {
		name = "p:" + name
	}
	doc = "<" + name
	na := 0
	if s.maxAttrs > 0 {
		na = vChoose(s.maxAttrs + 1)
	}
	var seen []string
	for i := 0; i < na; i++ {
		an := vNondetString(1, 1, "xyz")
		if s.prefixes && vChoose(3) == 1 {
			an = "xmlns:" + an
		}
		for _, p := range seen {
			vAssume(p != an)
		}
		seen = append(seen, an)
		doc += " " + an + "=\"" + vNondetString(1, 1, "12") + "\""
	}
	nk := 0
	if depth > 0 {
		nk = vChoose(s.maxKids + 1)
	}
	hasText := s.text && vChoose(2) == 1
	extra := 0
	if s.extras {
		extra = vChoose(4)
	}
	if nk == 0 && !hasText && extra == 0 {
		if vChoose(2) == 1 {
			return doc + "/>", false
		}
		return doc + "></" + name + ">", false
	}
	doc += ">"
	if hasText {
		doc += vNondetString(1, 1, "tu")
		if nk > 0 || extra > 0 {
			mixed = true
		}
	}
	pos := 0
	if extra > 0 && nk > 0 {
		pos = vChoose(nk + 1)
	}
	for i := 0; i <= nk; i++ {
		if extra > 0 && i == pos {
			switch extra {
			case 1:
				doc += "<!--" + []string{"c", "a> <b", "x>\n<y"}[vChoose(3)] + "-->"
			case 2:
				doc += "<?pi " + []string{"x", "a> <b"}[vChoose(2)] + "?>"
			default:
				doc += "<!D d>"
			}
		}
		if i < nk {
			kd, km := vNondetSeqDoc(s, depth-1)
			doc += kd
			if km {
				mixed = true
			}
		}
	}
	return doc + "</" + name + ">", mixed
}

func vC04(s vSeqSpec) {
	vResetDecOpts()
	if s.keyPrefix {
		SetGlobalKeyMapPrefix([]string{"#", "%"}[vChoose(2)])
		defer SetGlobalKeyMapPrefix("#")
	}
	if s.goEmpty && vChoose(2) == 1 {
		XmlGoEmptyElemSyntax() // <a></a> instead of <a/>: the same token stream
		defer XmlDefaultEmptyElemSyntax()
	}
	doc, mixed := vNondetSeqDoc(s, s.depth)
	want, okw := vRawTokens([]byte(doc))
	vAssume(okw)
	ms, err := NewMapXmlSeq([]byte(doc))
	vAssert(err == nil, "seq: a well-formed document decodes")
	var x []byte
	var xerr error
	form := vChoose(3)
	panicked := vCatch(func() {
		switch form {
		case 0:
			x, xerr = ms.Xml()
		case 1:
			x, xerr = ms.XmlIndent("", "  ")
		default:
			x, xerr = BeautifyXml([]byte(doc), "", "  ")
		}
	})
	if panicked && mixed && vKnown("C04-text-beside-children") {
		// known finding: text stored beside child elements crashes the sequence encoder
		vKnownHit("C04-text-beside-children")
		return
	}
	vAssert(!panicked, "seq: a decoded MapSeq encodes without a panic")
	vAssert(xerr == nil, "seq: a decoded MapSeq encodes without error")
	got, okg := vRawTokens(x)
	vAssert(okg, "seq: the re-encoded document tokenises")
	vAssert(vSameToks(got, want), "seq: decode then encode reproduces the token stream (names, order, attributes, text, comments, instructions)")
	if form < 2 {
		var y []byte
		if form == 0 {
			y, _ = ms.Xml()
		} else {
			y, _ = ms.XmlIndent("", "  ")
		}
		vAssert(string(y) == string(x), "seq: encoding the same MapSeq again reproduces the same document")
	}
	switch form {
	case 0:
		vCover("compact")
	case 1:
		vCover("indent")
	default:
		vCover("beautify")
	}
}

// sibling order: interleaved equal and different names, text alone or before children
func H_C04_seq() {
	s := vSeqSpec{depth: 1, maxKids: vP("kids", 3, 4), maxAttrs: vP("attrs", 0, 1), nameAlpha: "ab", text: true, extras: vP("extras", 0, 1) == 1, goEmpty: true}
	vC04(s)
}

func H_C04_seq_nested() {
	s := vSeqSpec{depth: vP("depth", 2, 3), maxKids: vP("kids", 2, 2), maxAttrs: vP("attrs", 0, 1), nameAlpha: "ab", text: true}
	vC04(s)
}

// attributes in order, namespace prefixes, xmlns attributes
func H_C04_seq_attrs() {
	s := vSeqSpec{depth: 1, maxKids: vP("kids", 1, 2), maxAttrs: vP("attrs", 2, 3), nameAlpha: "ab", prefixes: true, text: vP("text", 0, 1) == 1, goEmpty: true}
	vC04(s)
}

// comments, processing instructions and directives at every position among the children
func H_C04_seq_extras() {
	s := vSeqSpec{depth: vP("depth", 1, 2), maxKids: vP("kids", 2, 2), maxAttrs: vP("attrs", 0, 1), nameAlpha: "ab", extras: true, text: true, keyPrefix: true}
	vC04(s)
}
