#!/bin/bash
export VERIF_EVIDENCE_DIR=/tmp/verif-mut-evidence
# re-runs the property check against every seeded change that was not detected yet and updates its meta.json
TIER=${1:-quick}
for d in /verif/seeded/*/; do
  name=$(basename $d); prop=${name%%-*}
  det=$(python3 -c "import json;print(json.load(open('$d/meta.json')).get('detected_by_check',''))")
  [ "$det" = yes ] && continue
  grep -q not_detected_because $d/meta.json && continue
  git -C /repo apply $d/patch.diff || { echo "apply failed $name"; continue; }
  out=$(cd /verif && timeout 7200 ./check $prop $TIER 2>&1); rc=$?
  git -C /repo checkout -q -- .
  res=no
  if [ $rc -eq 1 ] && echo "$out" | grep -q "^VIOLATION property=$prop"; then res=yes; elif [ $rc -eq 2 ]; then res=inconclusive; fi
  lab=$(echo "$out" | grep "violation reproduced natively" | head -1 | sed 's/.*natively: //' | cut -c1-160)
  python3 - "$d/meta.json" "$res" "$TIER" "$lab" <<'PY'
import json,sys
p,res,tier,lab=sys.argv[1:5]
m=json.load(open(p)); m['detected_by_check']=res; m['detected_in_tier']=tier
if lab: m['detected_by']=lab
json.dump(m,open(p,'w'),indent=1)
PY
  echo "REEVAL $name $res $lab"
  [ "$res" = inconclusive ] && echo "$out" | grep INCONCLUSIVE | head -3 | cut -c1-250
done
