package main

// One SMT solver process per worker, driven over a pipe (z3 -in), push/pop aligned with
// the path being executed.

import (
	"bufio"
	"fmt"
	"io"
	"math"
	"os"
	"os/exec"
	"strconv"
	"strings"
	"time"
)

type SolverStats struct {
	Queries  int
	Sat      int
	Unsat    int
	Unknown  int
	Errors   int
	Time     time.Duration
	MaxTime  time.Duration
	ByKind   map[string]int
	Recorded int
}

type Solver struct {
	name  string
	argv  []string
	cmd   *exec.Cmd
	in    *bufio.Writer
	inRaw io.WriteCloser
	out   *bufio.Reader
	em    *Emitter
	stats SolverStats
	buf   strings.Builder
	depth int
	// transcript of the current top-level scope, used to dump standalone scripts for
	// cross-checking obligation queries with other solvers
	record    bool
	script    []string // stack of command text since start()
	dumpDir   string
	dumpN     int
	dumpLimit int
	dead      bool
}

func NewSolver(argv []string) (*Solver, error) {
	s := &Solver{argv: argv, name: argv[0], em: NewEmitter()}
	s.stats.ByKind = map[string]int{}
	if err := s.start(); err != nil {
		return nil, err
	}
	return s, nil
}

func (s *Solver) start() error {
	s.cmd = exec.Command(s.argv[0], s.argv[1:]...)
	w, err := s.cmd.StdinPipe()
	if err != nil {
		return err
	}
	r, err := s.cmd.StdoutPipe()
	if err != nil {
		return err
	}
	s.cmd.Stderr = os.Stderr
	if err := s.cmd.Start(); err != nil {
		return err
	}
	s.inRaw = w
	s.in = bufio.NewWriterSize(w, 1<<16)
	s.out = bufio.NewReaderSize(r, 1<<16)
	s.em.Reset()
	s.depth = 0
	s.script = s.script[:0]
	s.send("(set-option :print-success false)\n")
	if strings.Contains(s.argv[0], "z3") {
		s.send("(set-option :timeout 30000)\n")
	}
	s.dead = false
	return nil
}

func (s *Solver) Close() {
	if s.cmd != nil {
		s.inRaw.Close()
		s.cmd.Process.Kill()
		s.cmd.Wait()
		s.cmd = nil
	}
}

func (s *Solver) restart() {
	s.Close()
	s.start()
}

func (s *Solver) send(txt string) {
	s.in.WriteString(txt)
	if s.record {
		s.script = append(s.script, txt)
	}
}

func (s *Solver) Push() {
	s.send("(push 1)\n")
	s.em.Push()
	s.depth++
}

func (s *Solver) Pop() {
	s.send("(pop 1)\n")
	s.em.Pop()
	s.depth--
}

// PopTo pops scopes until depth d.
func (s *Solver) PopTo(d int) {
	for s.depth > d {
		s.Pop()
	}
}

func (s *Solver) Assert(ts *TermStore, t *Term) {
	if t.IsTrue() {
		return
	}
	s.buf.Reset()
	ref := s.em.Ref(ts, t, &s.buf)
	s.buf.WriteString("(assert " + ref + ")\n")
	s.send(s.buf.String())
}

// Check runs (check-sat); returns "sat", "unsat", "unknown" or "error".
func (s *Solver) Check(kind string) string {
	t0 := time.Now()
	s.send("(check-sat)\n")
	s.in.Flush()
	res := "error"
	sawErr := false
	for {
		line, err := s.out.ReadString('\n')
		if err != nil {
			s.dead = true
			res = "error"
			break
		}
		line = strings.TrimSpace(line)
		if line == "sat" || line == "unsat" || line == "unknown" {
			res = line
			break
		}
		if strings.HasPrefix(line, "(error") {
			sawErr = true
			fmt.Fprintf(os.Stderr, "solver %s: %s\n", s.name, line)
		}
	}
	if sawErr {
		res = "error"
	}
	d := time.Since(t0)
	s.stats.Queries++
	s.stats.ByKind[kind]++
	s.stats.Time += d
	if d > s.stats.MaxTime {
		s.stats.MaxTime = d
	}
	if d > time.Second && os.Getenv("SYMGO_DUMP_SLOW") != "" {
		save, lim := s.dumpDir, s.dumpLimit
		s.dumpDir, s.dumpLimit = os.Getenv("SYMGO_DUMP_SLOW"), 1000
		s.Dump("slow-" + res)
		s.dumpDir, s.dumpLimit = save, lim
	}
	switch res {
	case "sat":
		s.stats.Sat++
	case "unsat":
		s.stats.Unsat++
	case "unknown":
		s.stats.Unknown++
	default:
		s.stats.Errors++
	}
	if s.dead {
		s.restart()
	}
	return res
}

// CheckWith: is PC ∧ t satisfiable?  Leaves the solver state unchanged.
func (s *Solver) CheckWith(ts *TermStore, t *Term, kind string) string {
	s.Push()
	s.Assert(ts, t)
	r := s.Check(kind)
	s.Pop()
	return r
}

// Dump writes the transcript of the current scope chain (recorded since BeginRecord) plus
// a check-sat to a standalone file, for re-discharge by other solvers.
func (s *Solver) Dump(expect string) {
	if s.dumpDir == "" || s.dumpN >= s.dumpLimit {
		return
	}
	path := fmt.Sprintf("%s/q%06d.%s.smt2", s.dumpDir, s.dumpN, expect)
	s.dumpN++
	f, err := os.Create(path)
	if err != nil {
		return
	}
	for _, c := range s.script {
		f.WriteString(c)
	}
	f.Close()
	s.stats.Recorded++
}

// Model values for variables (after a sat answer, before pop).
func (s *Solver) Values(ts *TermStore, vars []*Term) map[string]uint64 {
	res := map[string]uint64{}
	const chunk = 200
	for i := 0; i < len(vars); i += chunk {
		j := i + chunk
		if j > len(vars) {
			j = len(vars)
		}
		var sb strings.Builder
		sb.WriteString("(get-value (")
		n := 0
		for _, v := range vars[i:j] {
			if !s.em.defined[v.ID] {
				continue // never sent to solver: unconstrained
			}
			sb.WriteString(v.Name + " ")
			n++
		}
		sb.WriteString("))\n")
		if n == 0 {
			continue
		}
		// do not record get-value in scripts
		s.in.WriteString(sb.String())
		s.in.Flush()
		txt := s.readSexp()
		parseValues(txt, res)
	}
	return res
}

func (s *Solver) readSexp() string {
	var sb strings.Builder
	depth := 0
	started := false
	for {
		line, err := s.out.ReadString('\n')
		if err != nil {
			s.dead = true
			return sb.String()
		}
		sb.WriteString(line)
		for _, c := range line {
			if c == '(' {
				depth++
				started = true
			} else if c == ')' {
				depth--
			}
		}
		if started && depth <= 0 {
			return sb.String()
		}
	}
}

// parseValues parses "((v1 #x61) (v2 true) (v3 (fp #b0 #b.. #x..)))"
func parseValues(txt string, res map[string]uint64) {
	toks := tokenize(txt)
	// expect ( ( name value ) ... )
	i := 0
	if len(toks) == 0 || toks[0] != "(" {
		return
	}
	i = 1
	for i < len(toks) && toks[i] == "(" {
		i++
		name := toks[i]
		i++
		// value: atom or parenthesised
		start := i
		if toks[i] == "(" {
			d := 0
			for {
				if toks[i] == "(" {
					d++
				} else if toks[i] == ")" {
					d--
				}
				i++
				if d == 0 {
					break
				}
			}
		} else {
			i++
		}
		res[name] = parseValue(toks[start:i])
		if i < len(toks) && toks[i] == ")" {
			i++
		}
	}
}

func tokenize(s string) []string {
	var toks []string
	cur := strings.Builder{}
	flush := func() {
		if cur.Len() > 0 {
			toks = append(toks, cur.String())
			cur.Reset()
		}
	}
	for _, c := range s {
		switch c {
		case '(', ')':
			flush()
			toks = append(toks, string(c))
		case ' ', '\n', '\t', '\r':
			flush()
		default:
			cur.WriteRune(c)
		}
	}
	flush()
	return toks
}

func parseValue(t []string) uint64 {
	if len(t) == 1 {
		a := t[0]
		switch {
		case a == "true":
			return 1
		case a == "false":
			return 0
		case strings.HasPrefix(a, "#x"):
			v, _ := strconv.ParseUint(a[2:], 16, 64)
			return v
		case strings.HasPrefix(a, "#b"):
			v, _ := strconv.ParseUint(a[2:], 2, 64)
			return v
		}
		return 0
	}
	// (_ bvN w) | (fp s e m) | (_ +zero 11 53) | (_ NaN 11 53) | (_ +oo 11 53)
	if len(t) >= 4 && t[1] == "_" {
		switch {
		case strings.HasPrefix(t[2], "bv"):
			v, _ := strconv.ParseUint(t[2][2:], 10, 64)
			return v
		case t[2] == "+zero":
			return 0
		case t[2] == "-zero":
			return math.Float64bits(math.Copysign(0, -1))
		case t[2] == "NaN":
			return math.Float64bits(math.NaN())
		case t[2] == "+oo":
			return math.Float64bits(math.Inf(1))
		case t[2] == "-oo":
			return math.Float64bits(math.Inf(-1))
		}
	}
	if len(t) >= 5 && t[1] == "fp" {
		sg := parseValue(t[2:3])
		ex := parseValue(t[3:4])
		mn := parseValue(t[4:5])
		return sg<<63 | ex<<52 | mn
	}
	return 0
}
