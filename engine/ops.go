package main

import (
	"fmt"
	"go/token"
	"go/types"
	"unicode/utf8"

	"golang.org/x/tools/go/ssa"
)

func decodeRuneBytes(b []byte) (rune, int) {
	r, n := utf8.DecodeRune(b)
	if n == 0 {
		n = 1
	}
	return r, n
}

func (x *Exec) binop(op token.Token, t types.Type, a, b Value) Value {
	ts := x.ts
	switch av := a.(type) {
	case *Term:
		bv := b.(*Term)
		switch av.S.K {
		case KBool:
			switch op {
			case token.EQL:
				return ts.Eq(av, bv)
			case token.NEQ:
				return ts.Not(ts.Eq(av, bv))
			case token.AND, token.LAND:
				return ts.And(av, bv)
			case token.OR, token.LOR:
				return ts.Or(av, bv)
			}
		case KFP:
			switch op {
			case token.EQL:
				return ts.FCmp(OFEq, av, bv)
			case token.NEQ:
				return ts.Not(ts.FCmp(OFEq, av, bv))
			case token.LSS:
				return ts.FCmp(OFLt, av, bv)
			case token.LEQ:
				return ts.FCmp(OFLe, av, bv)
			case token.GTR:
				return ts.FCmp(OFLt, bv, av)
			case token.GEQ:
				return ts.FCmp(OFLe, bv, av)
			case token.ADD:
				return ts.FBin(OFAdd, av, bv)
			case token.SUB:
				return ts.FBin(OFSub, av, bv)
			case token.MUL:
				return ts.FBin(OFMul, av, bv)
			case token.QUO:
				return ts.FBin(OFDiv, av, bv)
			}
		case KBV:
			_, signed, _ := intInfo(t)
			switch op {
			case token.ADD:
				return ts.Bin(OAdd, av, bv)
			case token.SUB:
				return ts.Bin(OSub, av, bv)
			case token.MUL:
				return ts.Bin(OMul, av, bv)
			case token.QUO, token.REM:
				z := ts.Eq(bv, ts.BV(bv.S.W, 0))
				if x.branch(z, "divzero") {
					x.tpanic("integer divide by zero")
				}
				if op == token.QUO {
					if signed {
						return ts.Bin(OSDiv, av, bv)
					}
					return ts.Bin(OUDiv, av, bv)
				}
				if signed {
					return ts.Bin(OSRem, av, bv)
				}
				return ts.Bin(OURem, av, bv)
			case token.AND:
				return ts.Bin(OBAnd, av, bv)
			case token.OR:
				return ts.Bin(OBOr, av, bv)
			case token.XOR:
				return ts.Bin(OBXor, av, bv)
			case token.AND_NOT:
				return ts.Bin(OBAnd, av, ts.BNot(bv))
			case token.SHL, token.SHR:
				// shift count may have different width; normalise to av width (unsigned count)
				cnt := bv
				if cnt.S.W < av.S.W {
					cnt = ts.ZExt(cnt, av.S.W)
				} else if cnt.S.W > av.S.W {
					// large counts saturate: if cnt >= width result is 0 / sign
					if cnt.IsConst() {
						c := cnt.C
						if c > 255 {
							c = 255
						}
						cnt = ts.BV(av.S.W, c)
					} else {
						big := ts.Cmp(OULe, ts.BV(cnt.S.W, uint64(av.S.W)), cnt)
						cnt = ts.Ite(big, ts.BV(av.S.W, uint64(av.S.W)), ts.Trunc(cnt, av.S.W))
					}
				}
				if op == token.SHL {
					return ts.Bin(OShl, av, cnt)
				}
				if signed {
					return ts.Bin(OAShr, av, cnt)
				}
				return ts.Bin(OLShr, av, cnt)
			case token.EQL:
				return ts.Eq(av, bv)
			case token.NEQ:
				return ts.Not(ts.Eq(av, bv))
			case token.LSS:
				if signed {
					return ts.Cmp(OSLt, av, bv)
				}
				return ts.Cmp(OULt, av, bv)
			case token.LEQ:
				if signed {
					return ts.Cmp(OSLe, av, bv)
				}
				return ts.Cmp(OULe, av, bv)
			case token.GTR:
				if signed {
					return ts.Cmp(OSLt, bv, av)
				}
				return ts.Cmp(OULt, bv, av)
			case token.GEQ:
				if signed {
					return ts.Cmp(OSLe, bv, av)
				}
				return ts.Cmp(OULe, bv, av)
			}
		}
	case Str:
		bv := b.(Str)
		switch op {
		case token.ADD:
			n := make([]*Term, 0, len(av.B)+len(bv.B))
			n = append(n, av.B...)
			n = append(n, bv.B...)
			return Str{n}
		case token.EQL:
			return ts.StrEq(av, bv)
		case token.NEQ:
			return ts.Not(ts.StrEq(av, bv))
		case token.LSS:
			return ts.StrLt(av, bv)
		case token.GTR:
			return ts.StrLt(bv, av)
		case token.LEQ:
			return ts.Not(ts.StrLt(bv, av))
		case token.GEQ:
			return ts.Not(ts.StrLt(av, bv))
		}
	}
	if op == token.EQL || op == token.NEQ {
		r := x.eqVal(a, b)
		if op == token.NEQ {
			r = ts.Not(r)
		}
		return r
	}
	x.unsupported(fmt.Sprintf("binop %s on %T", op, a))
	return nil
}

func (x *Exec) eqVal(a, b Value) *Term {
	ts := x.ts
	switch av := a.(type) {
	case nil:
		return ts.Bool(b == nil)
	case *Term:
		if av.S.K == KFP {
			return ts.FCmp(OFEq, av, b.(*Term))
		}
		return ts.Eq(av, b.(*Term))
	case Str:
		return ts.StrEq(av, b.(Str))
	case Ptr:
		return ts.Bool(av.C == b.(Ptr).C)
	case *MapObj:
		bm := b.(*MapObj)
		return ts.Bool(av == bm)
	case Slice:
		bs := b.(Slice)
		return ts.Bool(av.A == nil && bs.A == nil)
	case *Closure:
		bc, _ := b.(*Closure)
		return ts.Bool(av == nil && bc == nil)
	case Iface, *Lazy:
		return x.ifaceEq(a, b)
	case StructV:
		bv := b.(StructV)
		r := ts.tTrue
		for i := range av {
			r = ts.And(r, x.eqVal(av[i], bv[i]))
		}
		return r
	case ArrayV:
		bv := b.(ArrayV)
		r := ts.tTrue
		for i := range av {
			r = ts.And(r, x.eqVal(av[i], bv[i]))
		}
		return r
	}
	x.unsupported(fmt.Sprintf("== on %T", a))
	return nil
}

func (x *Exec) asIface(v Value) Iface {
	switch c := v.(type) {
	case Iface:
		return c
	case *Lazy:
		return x.force(c)
	case nil:
		return Iface{}
	}
	panic(fmt.Sprintf("asIface: %T", v))
}

func (x *Exec) ifaceEq(a, b Value) *Term {
	// identical lazy nodes are equal without inspection (NaN excluded by construction)
	if la, ok := a.(*Lazy); ok {
		if lb, ok := b.(*Lazy); ok && la == lb {
			return x.ts.tTrue
		}
	}
	ia, ib := x.asIface(a), x.asIface(b)
	if ia.T == nil || ib.T == nil {
		return x.ts.Bool(ia.T == nil && ib.T == nil)
	}
	if !types.Identical(ia.T, ib.T) {
		return x.ts.tFals
	}
	switch ia.T.Underlying().(type) {
	case *types.Map, *types.Slice, *types.Signature:
		x.tpanic("runtime error: comparing uncomparable type " + typeStr(ia.T))
	}
	return x.eqVal(ia.V, ib.V)
}

func (x *Exec) convert(from, to types.Type, v Value) Value {
	ts := x.ts
	uf, ut := from.Underlying(), to.Underlying()
	switch utt := ut.(type) {
	case *types.Basic:
		if utt.Info()&types.IsInteger != 0 {
			tw, _, _ := bvWidthOf(utt)
			if fb, ok := uf.(*types.Basic); ok {
				if fb.Info()&types.IsInteger != 0 {
					t := v.(*Term)
					fw, fsigned, _ := bvWidthOf(fb)
					if tw == fw {
						return t
					}
					if tw < fw {
						return ts.Trunc(t, tw)
					}
					if fsigned {
						return ts.SExt(t, tw)
					}
					return ts.ZExt(t, tw)
				}
				if fb.Info()&types.IsFloat != 0 {
					_, tsigned, _ := bvWidthOf(utt)
					return ts.FToInt(v.(*Term), tw, tsigned)
				}
			}
			if utt.Kind() == types.Uintptr || utt.Kind() == types.UnsafePointer {
				x.unsupported("pointer conversion")
			}
		}
		if utt.Info()&types.IsFloat != 0 {
			if fb, ok := uf.(*types.Basic); ok {
				if fb.Info()&types.IsFloat != 0 {
					return v
				}
				if fb.Info()&types.IsInteger != 0 {
					_, fsigned, _ := bvWidthOf(fb)
					return ts.IntToF(v.(*Term), fsigned)
				}
			}
		}
		if utt.Info()&types.IsString != 0 {
			switch fv := v.(type) {
			case Str:
				return fv
			case Slice: // []byte or []rune -> string
				et := uf.(*types.Slice).Elem().Underlying().(*types.Basic)
				if et.Kind() == types.Uint8 {
					b := make([]*Term, fv.Len)
					for i := 0; i < fv.Len; i++ {
						b[i] = fv.A.E[fv.Off+i].(*Term)
					}
					return Str{b}
				}
				// []rune
				var out []byte
				for i := 0; i < fv.Len; i++ {
					r := fv.A.E[fv.Off+i].(*Term)
					if !r.IsConst() {
						x.unsupported("symbolic []rune to string")
					}
					out = utf8.AppendRune(out, rune(r.SVal()))
				}
				return ts.StrOf(string(out))
			case *Term: // integer -> string (rune)
				if !fv.IsConst() {
					// ASCII only
					if x.branch(ts.Cmp(OULt, fv, ts.BV(fv.S.W, 0x80)), "rune-ascii") {
						return Str{[]*Term{ts.Trunc(fv, 8)}}
					}
					// two-byte UTF-8 sequence for U+0080..U+07FF (covers every byte value converted as a rune)
					if fv.S.W < 16 {
						fv = ts.ZExt(fv, 16) // string(b) of a byte: the rune is the byte's value
					}
					if x.branch(ts.Cmp(OULt, fv, ts.BV(fv.S.W, 0x800)), "rune-2byte") {
						w := fv.S.W
						hi := ts.Bin(OBOr, ts.BV(w, 0xC0), ts.Bin(OLShr, fv, ts.BV(w, 6)))
						lo := ts.Bin(OBOr, ts.BV(w, 0x80), ts.Bin(OBAnd, fv, ts.BV(w, 0x3F)))
						return Str{[]*Term{ts.Trunc(hi, 8), ts.Trunc(lo, 8)}}
					}
					x.unsupported("symbolic rune above U+07FF to string")
				}
				return ts.StrOf(string(rune(fv.SVal())))
			}
		}
		if utt.Info()&types.IsBoolean != 0 {
			return v
		}
		if utt.Kind() == types.UnsafePointer {
			x.unsupported("unsafe.Pointer conversion")
		}
	case *types.Slice:
		if s, ok := v.(Str); ok {
			et := utt.Elem().Underlying().(*types.Basic)
			if et.Kind() == types.Uint8 {
				a := x.newArr(len(s.B))
				for i, b := range s.B {
					a.E[i] = b
				}
				return Slice{A: a, Len: len(s.B), Cap: len(s.B)}
			}
			// []rune(s)
			var rs []Value
			for i := 0; i < len(s.B); {
				b := s.B[i]
				if b.IsConst() && b.C >= 0x80 {
					r, n := x.decodeRune(s, i)
					rs = append(rs, ts.BV(32, uint64(r)))
					i += n
					continue
				}
				if !b.IsConst() {
					if !x.branch(ts.Cmp(OULt, b, ts.BV(8, 0x80)), "rune-ascii") {
						x.unsupported("symbolic non-ASCII byte in []rune conversion")
					}
				}
				rs = append(rs, ts.ZExt(b, 32))
				i++
			}
			a := x.newArr(len(rs))
			copy(a.E, rs)
			return Slice{A: a, Len: len(rs), Cap: len(rs)}
		}
		return v
	case *types.Pointer:
		return v
	}
	x.unsupported(fmt.Sprintf("convert %s -> %s", from, to))
	return nil
}

func (x *Exec) typeAssert(in *ssa.TypeAssert, v Value) Value {
	itf := x.asIface(v)
	var ok bool
	var res Value
	if ai, isIface := in.AssertedType.Underlying().(*types.Interface); isIface {
		if itf.T != nil && x.implements(itf.T, ai) {
			ok = true
			res = itf
		}
	} else {
		if itf.T != nil && types.Identical(itf.T, in.AssertedType) {
			ok = true
			res = copyVal(itf.V)
		}
	}
	if in.CommaOk {
		if !ok {
			res = x.zero(in.AssertedType)
		}
		return Tuple{res, x.ts.Bool(ok)}
	}
	if !ok {
		x.tpanic(fmt.Sprintf("interface conversion: interface is %s, not %s", typeStr(itf.T), typeStr(in.AssertedType)))
	}
	return res
}

func (x *Exec) implements(t types.Type, it *types.Interface) bool {
	if it.NumMethods() == 0 {
		return true
	}
	return types.Implements(t, it)
}
