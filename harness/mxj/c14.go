package mxj

import (
	"math"
	"strconv"
)

func init() {
	vHarnesses["H_C14_special"] = H_C14_special
	vHarnesses["H_C14_numeric"] = H_C14_numeric
	vHarnesses["H_C14_bool"] = H_C14_bool
	vHarnesses["H_C14_boundary"] = H_C14_boundary
	vHarnesses["H_C14_skiptag"] = H_C14_skiptag
	vHarnesses["H_C14_seq"] = H_C14_seq
	vHarnesses["H_C14_structure"] = H_C14_structure
}

type vCastOpts struct {
	toInt, toFloat, toBool, nanInf, skip bool
	skipTag                            string // when non-empty: skip exactly this tag
}

func vSetCastOpts(o vCastOpts) {
	// whatever was registered before is replaced or cleared by the calls below
	SetCheckTagToSkipFunc(func(string) bool { return true })
	CastValuesToInt(o.toInt)
	CastValuesToFloat(o.toFloat)
	CastValuesToBool(o.toBool)
	CastNanInf(o.nanInf)
	if o.skipTag != "" {
		tag := o.skipTag
		SetCheckTagToSkipFunc(func(t string) bool { return t == tag })
	} else if o.skip {
		SetCheckTagToSkipFunc(func(string) bool { return true })
	} else if vChoose(2) == 1 {
		SetCheckTagToSkipFunc(func(string) bool { return false })
	} else {
		SetCheckTagToSkipFunc(nil)
	}
}

func vResetCastOpts() {
	CastValuesToInt(false)
	CastValuesToFloat(true)
	CastValuesToBool(true)
	CastNanInf(false)
	SetCheckTagToSkipFunc(nil)
}

// refCast: the value a leaf text denotes under the enabled cast options (strict chain:
// integer, then float, then boolean, else the identical string). ambiguous: "0"/"1" when
// no numeric cast applies (number-like booleans; the statement does not decide them).
func refCast(s string, o vCastOpts) (want interface{}, ambiguous bool) {
	if o.skip {
		return s, false
	}
	if o.toInt {
		if i, err := strconv.ParseInt(s, 10, 64); err == nil {
			return i, false
		}
		if u, err := strconv.ParseUint(s, 10, 64); err == nil {
			return u, false
		}
	}
	f, ferr := strconv.ParseFloat(s, 64)
	special := ferr == nil && (math.IsNaN(f) || math.IsInf(f, 0))
	if special && !o.nanInf {
		// never cast, whatever the spelling
		return s, false
	}
	if o.toFloat && ferr == nil {
		return f, false
	}
	if o.toBool {
		if b, err := strconv.ParseBool(s); err == nil {
			if s == "0" || s == "1" {
				return s, true
			}
			return b, false
		}
	}
	return s, false
}

func vSameCast(got, want interface{}) bool {
	if wf, ok := want.(float64); ok {
		gf, ok2 := got.(float64)
		if !ok2 {
			return false
		}
		if math.IsNaN(wf) {
			return math.IsNaN(gf)
		}
		return gf == wf
	}
	return vSame(got, want)
}

func vC14(text string, o vCastOpts) {
	vResetDecOpts()
	pos := vChoose(3)
	var doc string
	leafText := text
	switch pos {
	case 0: // element text
		doc = "<r><k>" + vEscText(text, false) + "</k></r>"
		leafText = refTrim(text, false)
		vCover("element")
	case 1: // attribute value (not trimmed)
		doc = "<r><k a=\"" + vEscText(text, true) + "\"/></r>"
		vCover("attribute")
	default: // text beside an attribute: under the text key
		doc = "<r><k b=\"z\">" + vEscText(text, false) + "</k></r>"
		leafText = refTrim(text, false)
		vCover("textkey")
	}
	vSetCastOpts(o)
	mc, errc := NewMapXml([]byte(doc), true)
	mp, errp := NewMapXml([]byte(doc))
	mf, errf := NewMapXml([]byte(doc), false)
	vResetCastOpts()
	vAssert(errc == nil && errp == nil && errf == nil, "cast: the document decodes with and without the cast flag")
	leaf := func(m Map) (interface{}, bool) {
		r, ok := m["r"].(map[string]interface{})
		if !ok {
			return nil, false
		}
		switch pos {
		case 0:
			v, has := r["k"]
			return v, has && len(r) == 1
		case 1:
			k, ok := r["k"].(map[string]interface{})
			if !ok {
				return nil, false
			}
			v, has := k["-a"]
			return v, has && len(k) == 1 && len(r) == 1
		default:
			k, ok := r["k"].(map[string]interface{})
			if !ok {
				return nil, false
			}
			v, has := k["#text"]
			if leafText == "" {
				return "", !has && len(k) == 1
			}
			return v, has && len(k) == 2 && k["-b"] == "z"
		}
	}
	lp, okp := leaf(mp)
	lf, okf := leaf(mf)
	lc, okc := leaf(mc)
	vAssert(okp && okf && okc, "cast: casting does not change the structure or keys of the Map")
	vAssert(vSame(lp, leafText) && vSame(lf, leafText), "cast: without the cast flag every leaf is the identical string")
	ro := o
	if o.skipTag != "" {
		leafTag := []string{"k", "-a", "#text"}[pos]
		ro.skip = leafTag == o.skipTag
	}
	want, ambiguous := refCast(leafText, ro)
	if pos == 2 && leafText == "" {
		return
	}
	if f, isF := lc.(float64); isF && !o.nanInf {
		vAssert(!math.IsNaN(f) && !math.IsInf(f, 0), "cast: no spelling of NaN or infinity is cast unless CastNanInf is on")
		_, jerr := mc.Json()
		vAssert(jerr == nil, "cast: a cast-decoded Map can always be converted to JSON (CastNanInf off)")
	}
	if !ambiguous {
		vAssert(vSameCast(lc, want), "cast: each leaf is the number or boolean its text denotes under the enabled options, else the identical string")
	}
	switch want.(type) {
	case float64:
		vCover("float")
	case bool:
		vCover("bool")
	case int64, uint64:
		vCover("int")
	default:
		vCover("string")
	}
}

func vNondetCastOpts() vCastOpts {
	return vCastOpts{toInt: vNondetBool(), toFloat: vNondetBool(), toBool: vNondetBool(), nanInf: vNondetBool(), skip: vNondetBool()}
}

// every case variant and signed spelling of nan / inf / infinity, and near misses
func H_C14_special() {
	text := vNondetString(0, 1, "+-") + vNondetString(0, 8, "iInNfFaAtTyY")
	o := vCastOpts{toFloat: vNondetBool(), nanInf: vNondetBool(), toBool: true}
	if vP("allopts", 0, 1) == 1 {
		o = vNondetCastOpts()
	}
	vC14(text, o)
}

// integers, decimal / exponent / hex floats, underscores, signs
func H_C14_numeric() {
	n := vP("bytes", 3, 4)
	text := vNondetString(0, n, "019+-.eE_xp ")
	vC14(text, vNondetCastOpts())
}

// boolean spellings accepted and rejected by ParseBool
func H_C14_bool() {
	text := vNondetString(1, 5, "tTrRuUeEfFaAlLsS01")
	o := vCastOpts{toFloat: vNondetBool(), toBool: vNondetBool(), skip: vNondetBool()}
	if vP("allopts", 0, 1) == 1 {
		o = vNondetCastOpts()
	}
	vC14(text, o)
}

// 64-bit boundary values and overflowing numerals
func H_C14_boundary() {
	var text string
	switch vChoose(6) {
	case 5: // numerals longer than any shortest-form float64 literal
		text = []string{"340282366920938463463374607431768211456", "0.1000000000000000055511151231257827", "-000000000000000000000000000012"}[vChoose(3)]
	case 0:
		text = "922337203685477580" + vNondetString(1, 1, "6789")
	case 1:
		text = "-922337203685477580" + vNondetString(1, 1, "6789")
	case 2:
		text = "1844674407370955161" + vNondetString(1, 1, "4567")
	case 3:
		text = "1" + vNondetString(1, 1, "eE") + vNondetString(1, 1, "39") + vNondetString(0, 2, "09")
	default:
		text = "0" + vNondetString(1, 1, "xX") + vNondetString(1, 2, "1fFp")
	}
	vC14(text, vNondetCastOpts())
}

// the skip function is consulted with the key the leaf is stored under
func H_C14_skiptag() {
	text := []string{"1", "true", "x", "2.5"}[vChoose(4)]
	o := vCastOpts{toInt: vNondetBool(), toFloat: true, toBool: true}
	o.skipTag = []string{"k", "-a", "#text", "r"}[vChoose(4)]
	vC14(text, o)
}

// the sequence-preserving decoder casts element text, plain attributes and prefixed
// attributes alike
func H_C14_seq() {
	vResetDecOpts()
	text := []string{"7", "2.5", "true", "x", "-1", "1e2"}[vChoose(6)]
	if vChoose(3) == 0 {
		text = vNondetString(1, 2, "17.et-")
	}
	o := vCastOpts{toInt: vNondetBool(), toFloat: vNondetBool(), toBool: vNondetBool()}
	doc := "<r p:n=\"" + text + "\" a=\"" + text + "\"><k>" + text + "</k><p:q p:m=\"" + text + "\"/></r>"
	CastValuesToInt(o.toInt)
	CastValuesToFloat(o.toFloat)
	CastValuesToBool(o.toBool)
	CastNanInf(false)
	SetCheckTagToSkipFunc(nil)
	mc, errc := NewMapXmlSeq([]byte(doc), true)
	mp, errp := NewMapXmlSeq([]byte(doc))
	vResetCastOpts()
	vAssert(errc == nil && errp == nil, "cast(seq): the document decodes with and without the cast flag")
	want, ambiguous := refCast(text, o)
	paths := []string{"r.#attr.p:n.#text", "r.#attr.a.#text", "r.k.#text", "r.p:q.#attr.p:m.#text"}
	for _, p := range paths {
		gp, e1 := Map(mp).ValueForPath(p)
		vAssert(e1 == nil && vSame(gp, text), "cast(seq): without the cast flag every leaf is the identical string")
		gc, e2 := Map(mc).ValueForPath(p)
		vAssert(e2 == nil, "cast(seq): casting does not change the structure or keys")
		if !ambiguous {
			vAssert(vSameCast(gc, want), "cast(seq): element text, plain attributes and prefixed attributes are each the value their text denotes under the enabled options")
		}
	}
	vCover("seq")
}

// casting changes leaf types only, also under the structural decoder options (tag sequence
// numbers, simple values as maps): cast and un-cast decoding give the same keys and nesting
func H_C14_structure() {
	vResetDecOpts()
	texts := []string{"7", "2.5", "true", "x", "-1", "18446744073709551615", "010"}
	t1, t2, t3 := texts[vChoose(len(texts))], texts[vChoose(len(texts))], texts[vChoose(len(texts))]
	doc := "<r n=\"" + t3 + "\"><a>" + t1 + "</a><b>" + t2 + "</b><c/><a>" + t2 + "</a></r>"
	o := vCastOpts{toInt: vNondetBool(), toFloat: vNondetBool(), toBool: vNondetBool()}
	seqnum, asMap := vNondetBool(), vNondetBool()
	IncludeTagSeqNum(seqnum)
	DecodeSimpleValuesAsMap(asMap)
	CastValuesToInt(o.toInt)
	CastValuesToFloat(o.toFloat)
	CastValuesToBool(o.toBool)
	mc, errc := NewMapXml([]byte(doc), true)
	mp, errp := NewMapXml([]byte(doc))
	vResetCastOpts()
	vResetDecOpts()
	vAssert(errc == nil && errp == nil, "cast(structure): decodes with and without the cast flag")
	var same func(a, b interface{}) bool
	same = func(a, b interface{}) bool {
		switch x := a.(type) {
		case map[string]interface{}:
			y, ok := b.(map[string]interface{})
			if !ok || len(x) != len(y) {
				return false
			}
			for k, v := range x {
				w, has := y[k]
				if !has || !same(v, w) {
					return false
				}
			}
			return true
		case []interface{}:
			y, ok := b.([]interface{})
			if !ok || len(x) != len(y) {
				return false
			}
			for i := range x {
				if !same(x[i], y[i]) {
					return false
				}
			}
			return true
		case string:
			// the un-cast leaf is a string; the cast one is that string or the value it denotes
			if ys, isStr := b.(string); isStr {
				return ys == x
			}
			want, amb := refCast(x, o)
			return amb || vSameCast(b, want)
		case int: // sequence numbers are not leaves
			y, ok := b.(int)
			return ok && x == y
		}
		return false
	}
	vAssert(same(map[string]interface{}(mp), map[string]interface{}(mc)), "cast(structure): the cast Map has the keys, nesting and sequence numbers of the un-cast Map, and each leaf is the value its text denotes")
	vCover("structure")
}
