package j2x

import (
	"bytes"

	. "github.com/clbanning/mxj/v2"
)

func init() {
	vHarnesses["H_C20_j2x"] = H_C20_j2x
}

func vSameStrs(a, b []string) bool {
	if len(a) != len(b) {
		return false
	}
	used := make([]bool, len(b))
	for _, x := range a {
		ok := false
		for j, y := range b {
			if !used[j] && x == y {
				used[j], ok = true, true
				break
			}
		}
		if !ok {
			return false
		}
	}
	return true
}

// every j2x function returns what the documented composition of core functions returns
func H_C20_j2x() {
	k := vNondetString(1, 1, "ab")
	v := vNondetString(1, 1, "x<&")
	j := []byte("{ \"r\" : {\"z\":1.50, \"" + k + "\":\"" + v + "\",\n\"b\":[1, true],\"c\":{\"" + k + "\":\"z\"}}}")
	core, cerr := NewMapJson(j)
	vAssert(cerr == nil, "j2x: the input decodes")
	key := vNondetString(1, 1, "abcq")
	safe := vChoose(2) == 1
	switch vChoose(12) {
	case 0:
		m, err := JsonToMap(j)
		vAssert(err == nil && vDeepEq(m, map[string]interface{}(core)), "j2x: JsonToMap equals NewMapJson")
	case 1:
		var got, want []byte
		if safe {
			got, _ = MapToJson(core, true)
			want, _ = core.Json(true)
		} else {
			got, _ = MapToJson(core)
			want, _ = core.Json()
		}
		vAssert(string(got) == string(want), "j2x: MapToJson equals Map.Json with the same safe-encoding flag")
	case 2:
		got, err := JsonToXml(j)
		want, _ := core.Xml()
		vAssert(err == nil && string(got) == string(want), "j2x: JsonToXml equals NewMapJson then Xml")
		w := &vWriter{}
		vAssert(JsonToXmlWriter(j, w) == nil && string(w.buf) == string(want), "j2x: JsonToXmlWriter writes NewMapJson then Xml")
		// a top-level JSON list is a document too (NewMapJson wraps it under "object")
		jl := []byte("[{\"a\":\"1\"},{\"a\":\"2\"}]")
		ml, _ := NewMapJson(jl)
		wantl, _ := ml.Xml()
		gotl, lerr := JsonToXml(jl)
		wl := &vWriter{}
		lwerr := JsonToXmlWriter(jl, wl)
		vAssert(lerr == nil && string(gotl) == string(wantl), "j2x: JsonToXml of a top-level list equals NewMapJson then Xml")
		vAssert(lwerr == nil && string(wl.buf) == string(wantl), "j2x: JsonToXmlWriter of a top-level list writes the same")
	case 3:
		raw, x, err := JsonReaderToXml(bytes.NewReader(j))
		want, _ := core.Xml()
		_, wraw, _ := NewMapJsonReaderRaw(bytes.NewReader(j))
		vAssert(err == nil && string(x) == string(want) && string(raw) == string(wraw), "j2x: JsonReaderToXml equals NewMapJsonReaderRaw then Xml")
		w := &vWriter{}
		vAssert(JsonReaderToXmlWriter(bytes.NewReader(j), w) == nil && string(w.buf) == string(want), "j2x: JsonReaderToXmlWriter writes the same XML")
		// a stream of two documents: one document per call, then io.EOF
		second := []byte("{\"z\":\"2\"}")
		rd := bytes.NewReader(append(append([]byte{}, j...), second...))
		w1, w2, w3 := &vWriter{}, &vWriter{}, &vWriter{}
		e1 := JsonReaderToXmlWriter(rd, w1)
		e2 := JsonReaderToXmlWriter(rd, w2)
		e3 := JsonReaderToXmlWriter(rd, w3)
		m2, _ := NewMapJson(second)
		want2, _ := m2.Xml()
		vAssert(e1 == nil && string(w1.buf) == string(want), "j2x: JsonReaderToXmlWriter converts the first document of a stream")
		vAssert(e2 == nil && string(w2.buf) == string(want2), "j2x: the next call converts the next document")
		vAssert(e3 != nil && len(w3.buf) == 0, "j2x: at the end of the stream an error is returned and nothing is written")
	case 4:
		got, err := JsonPathsForKey(j, key)
		want := core.PathsForKey(key)
		if len(want) == 0 {
			vAssert(len(got) == 0, "j2x: JsonPathsForKey of an absent key yields no paths")
		} else {
			vAssert(err == nil && vSameStrs(got, want), "j2x: JsonPathsForKey equals Map.PathsForKey")
		}
	case 5:
		got, _ := JsonPathForKeyShortest(j, key)
		vAssert(got == core.PathForKeyShortest(key), "j2x: JsonPathForKeyShortest equals Map.PathForKeyShortest")
	case 6:
		got, err := JsonValuesForKey(j, key)
		want, _ := core.ValuesForKey(key)
		vAssert(err == nil && len(got) == len(want), "j2x: JsonValuesForKey returns as many values as Map.ValuesForKey")
		vAssert(vSameMultisetDeep(got, want), "j2x: JsonValuesForKey equals Map.ValuesForKey")
	case 7:
		p := "r." + key
		got, err := JsonValuesForKeyPath(j, p)
		want, _ := core.ValuesForPath(p)
		vAssert(err == nil && len(got) == len(want), "j2x: JsonValuesForKeyPath returns as many values as Map.ValuesForPath")
		vAssert(vSameMultisetDeep(got, want), "j2x: JsonValuesForKeyPath equals Map.ValuesForPath")
	case 8:
		up := []string{"r.", "nope.", "r.c."}[vChoose(3)] + key
		got, err := JsonUpdateValsForPath(j, key+":N", up)
		c2, _ := NewMapJson(j)
		c2.UpdateValuesForPath(key+":N", up)
		want, _ := c2.Json()
		vAssert(err == nil && string(got) == string(want), "j2x: JsonUpdateValsForPath equals UpdateValuesForPath then Json")
	case 9:
		got, err := JsonNewJson(j, "r."+key+":n")
		n, _ := core.NewMap("r." + key + ":n")
		want, _ := n.Json()
		vAssert(err == nil && string(got) == string(want), "j2x: JsonNewJson equals NewMap then Json")
		gx, err2 := JsonNewXml(j, "r."+key+":n")
		wx, _ := n.Xml()
		vAssert(err2 == nil && string(gx) == string(wx), "j2x: JsonNewXml equals NewMap then Xml")
	case 10:
		got, err := JsonLeafNodes(j)
		want := core.LeafNodes()
		vAssert(err == nil && len(got) == len(want), "j2x: JsonLeafNodes returns as many leaves as Map.LeafNodes")
		gp, _ := JsonLeafPath(j)
		vAssert(vSameStrs(gp, core.LeafPaths()), "j2x: JsonLeafPath equals Map.LeafPaths")
	default:
		got, err := JsonLeafValues(j)
		want := core.LeafValues()
		vAssert(err == nil && len(got) == len(want), "j2x: JsonLeafValues returns as many values as Map.LeafValues")
	}
	vCover("j2x")
}
