#!/bin/bash
# usage: calib.sh <timeout> <pkgs> <harness> [params]   -> one line: harness params paths wall status
# runs one harness in the thorough tier against the clean scratch copy in $CALIB_REPO (default /repo)
T=$1; PK=$2; H=$3; P=$4
R=${CALIB_REPO:-/repo}
out=$(/verif/bin/symgo run -repo $R -pkgs $PK -tier thorough -timeout $T ${P:+-params $P} -h $H 2>&1)
line=$(echo "$out" | grep "^== $H" | sed 's/ infeasible.*wall=/ wall=/; s/ solver.*//')
st=ok; echo "$out" | grep -q TRUNCATED && st=TRUNC; echo "$out" | grep -q "unsupported:" && st=UNSUPP; echo "$out" | grep -q "VIOL" && st=VIOL
echo "$line params=[$P] $st"
