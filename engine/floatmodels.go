package main

// strconv.ParseFloat: the special-value scanner (strconv.special) and the syntax scanner
// (strconv.readFloat) are executed from the standard library's own SSA on the symbolic
// bytes; only the final decimal->binary conversion of a syntactically valid finite
// literal is an uninterpreted function of (mantissa, exponent, sign).

import (
	"math"
	"strconv"

	"golang.org/x/tools/go/ssa"
)

func (x *Exec) numError(fn, kind string) Value {
	// a distinct error value; mxj only tests err == nil
	return x.newError("strconv." + fn + ": " + kind)
}

func init() {
	fm := map[string]intrinsic{
		"math.Inf": func(x *Exec, fr *frame, fn *ssa.Function, a []Value) Value {
			s := a[0].(*Term)
			if !s.IsConst() {
				if x.branch(x.ts.Cmp(OSLe, x.ts.BV(64, 0), s), "inf-sign") {
					return x.ts.FP(math.Inf(1))
				}
				return x.ts.FP(math.Inf(-1))
			}
			return x.ts.FP(math.Inf(int(s.SVal())))
		},
		"math.NaN": func(x *Exec, fr *frame, fn *ssa.Function, a []Value) Value {
			return x.ts.FP(math.NaN())
		},
		"math.IsNaN": func(x *Exec, fr *frame, fn *ssa.Function, a []Value) Value {
			return x.ts.FUn(OFIsNaN, a[0].(*Term))
		},
		"math.IsInf": func(x *Exec, fr *frame, fn *ssa.Function, a []Value) Value {
			f := a[0].(*Term)
			sign := cint(x, a[1], "IsInf sign")
			inf := x.ts.FUn(OFIsInf, f)
			switch {
			case sign > 0:
				return x.ts.And(inf, x.ts.FCmp(OFLt, x.ts.FP(0), f))
			case sign < 0:
				return x.ts.And(inf, x.ts.FCmp(OFLt, f, x.ts.FP(0)))
			}
			return inf
		},
		"strconv.ParseFloat": func(x *Exec, fr *frame, fn *ssa.Function, a []Value) Value {
			s := a[0].(Str)
			bits := cint(x, a[1], "bitSize")
			ts := x.ts
			if cs, ok := s.Concrete(); ok {
				f, err := strconv.ParseFloat(cs, bits)
				if err != nil {
					return Tuple{ts.FP(f), x.numError("ParseFloat", "error")}
				}
				return Tuple{ts.FP(f), Iface{}}
			}
			if bits != 64 {
				x.unsupported("model limit: ParseFloat with bitSize != 64 on symbolic text")
			}
			sp := x.eng.ssaByPath["strconv"]
			r := x.callFunction(sp.Func("special"), []Value{s}, nil).(Tuple)
			if x.branch(r[2].(*Term), "pf-special") {
				n := r[1].(*Term)
				if x.branch(ts.Eq(n, ts.BV(64, uint64(len(s.B)))), "pf-special-all") {
					return Tuple{r[0], Iface{}}
				}
				return Tuple{ts.FP(0), x.numError("ParseFloat", "invalid syntax")}
			}
			rf := x.callFunction(sp.Func("readFloat"), []Value{s}, nil).(Tuple)
			mant, exp, neg, hex, n, ok := rf[0].(*Term), rf[1].(*Term), rf[2].(*Term), rf[4].(*Term), rf[5].(*Term), rf[6].(*Term)
			if !x.branch(ok, "pf-syntax") || !x.branch(ts.Eq(n, ts.BV(64, uint64(len(s.B)))), "pf-all") {
				return Tuple{ts.FP(0), x.numError("ParseFloat", "invalid syntax")}
			}
			if x.branch(ts.Eq(mant, ts.BV(64, 0)), "pf-zero") {
				z := ts.Ite(neg, ts.FP(math.Copysign(0, -1)), ts.FP(0))
				return Tuple{z, Iface{}}
			}
			// overflow: certainly for huge exponents, possibly near the limit
			lim := int64(310)
			if x.branch(hex, "pf-hex") {
				lim = 1030
			}
			if x.branch(ts.Cmp(OSLt, ts.BV(64, uint64(lim)), exp), "pf-overflow") {
				return Tuple{ts.Ite(neg, ts.FP(math.Inf(-1)), ts.FP(math.Inf(1))), x.numError("ParseFloat", "value out of range")}
			}
			if x.branch(ts.Cmp(OSLt, ts.BV(64, uint64(lim-40)), exp), "pf-near-overflow") {
				if x.branch(ts.UF("pfovf", SBool, mant, exp, neg), "pf-overflow-nondet") {
					return Tuple{ts.Ite(neg, ts.FP(math.Inf(-1)), ts.FP(math.Inf(1))), x.numError("ParseFloat", "value out of range")}
				}
			}
			name := "pfdec"
			if hex.IsTrue() {
				name = "pfhex"
			}
			v := ts.UF(name, SFP, mant, exp, neg)
			x.addPC(ts.Not(ts.FUn(OFIsNaN, v)))
			x.addPC(ts.Not(ts.FUn(OFIsInf, v)))
			return Tuple{v, Iface{}}
		},
	}
	for k, v := range fm {
		models[k] = v
	}
	// math functions on concrete arguments are evaluated natively; on symbolic
	// arguments they are a model limit
	un := map[string]func(float64) float64{"Trunc": math.Trunc, "Floor": math.Floor, "Ceil": math.Ceil, "Abs": math.Abs,
		"Round": math.Round, "Sqrt": math.Sqrt, "Log10": math.Log10, "Log": math.Log, "Log2": math.Log2, "Exp": math.Exp, "RoundToEven": math.RoundToEven}
	for name, f := range un {
		f := f
		name := name
		models["math."+name] = func(x *Exec, fr *frame, fn *ssa.Function, a []Value) Value {
			t := a[0].(*Term)
			if !t.IsConst() {
				x.unsupported("model limit: math." + name + " of a symbolic value")
			}
			return x.ts.FP(f(math.Float64frombits(t.C)))
		}
	}
	bin := map[string]func(float64, float64) float64{"Pow": math.Pow, "Mod": math.Mod, "Max": math.Max, "Min": math.Min}
	for name, f := range bin {
		f := f
		name := name
		models["math."+name] = func(x *Exec, fr *frame, fn *ssa.Function, a []Value) Value {
			t, u := a[0].(*Term), a[1].(*Term)
			if !t.IsConst() || !u.IsConst() {
				x.unsupported("model limit: math." + name + " of a symbolic value")
			}
			return x.ts.FP(f(math.Float64frombits(t.C), math.Float64frombits(u.C)))
		}
	}
	models["math.Float64bits"] = func(x *Exec, fr *frame, fn *ssa.Function, a []Value) Value {
		t := a[0].(*Term)
		if !t.IsConst() {
			x.unsupported("model limit: math.Float64bits of a symbolic value")
		}
		return x.ts.BV(64, t.C)
	}
	models["math.Float64frombits"] = func(x *Exec, fr *frame, fn *ssa.Function, a []Value) Value {
		t := a[0].(*Term)
		if !t.IsConst() {
			x.unsupported("model limit: math.Float64frombits of a symbolic value")
		}
		return x.ts.FP(math.Float64frombits(t.C))
	}
}
