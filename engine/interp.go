package main

// The interpreter proper: frames, SSA instruction dispatch.

import (
	"fmt"
	"go/constant"
	"go/token"
	"go/types"

	"golang.org/x/tools/go/ssa"
)

type deferred struct {
	fn   Value
	args []Value
	site *ssa.Defer
}

type frame struct {
	x         *Exec
	fn        *ssa.Function
	env       []Value
	idx       map[ssa.Value]int
	block     *ssa.BasicBlock
	prev      *ssa.BasicBlock
	defers    []deferred
	result    Value
	panicking *targetPanic
	caller    *frame
	fenv      []Value
}

const (
	maxSteps = 3_000_000
	maxDepth = 200
)

func (fr *frame) get(v ssa.Value) Value {
	switch v := v.(type) {
	case *ssa.Const:
		if c, ok := fr.x.w.consts[v]; ok {
			return c
		}
		c := fr.x.constVal(v)
		switch c.(type) {
		case *Term, Str:
			fr.x.w.consts[v] = c
		}
		return c
	case *ssa.Global:
		return fr.x.globalPtr(v)
	case *ssa.Function:
		return &Closure{Fn: v}
	case *ssa.Builtin:
		return BuiltinV{v}
	case *ssa.FreeVar:
		for i, fv := range fr.fn.FreeVars {
			if fv == v {
				return fr.fenv[i]
			}
		}
	}
	if i, ok := fr.idx[v]; ok {
		return fr.env[i]
	}
	panic(fmt.Sprintf("get: no value for %T %v in %s", v, v.Name(), fr.fn))
}

func (x *Exec) constVal(c *ssa.Const) Value {
	t := c.Type()
	if c.Value == nil {
		return x.zero(t)
	}
	switch u := t.Underlying().(type) {
	case *types.Basic:
		switch {
		case u.Info()&types.IsBoolean != 0:
			return x.ts.Bool(constant.BoolVal(c.Value))
		case u.Info()&types.IsString != 0:
			return x.ts.StrOf(constant.StringVal(c.Value))
		case u.Info()&types.IsFloat != 0:
			f, _ := constant.Float64Val(constant.ToFloat(c.Value))
			return x.ts.FP(f)
		case u.Info()&types.IsInteger != 0:
			w, signed, _ := bvWidthOf(u)
			if signed {
				return x.ts.BV(w, uint64(c.Int64()))
			}
			return x.ts.BV(w, c.Uint64())
		}
	case *types.Interface:
		// constant of interface type is only nil
		return Iface{}
	}
	x.unsupported("const of type " + t.String())
	return nil
}

func (x *Exec) globalPtr(g *ssa.Global) Value {
	path := g.Pkg.Pkg.Path()
	if !x.eng.interpreted(path) {
		// standard-library globals live at worker level: they are initialised once
		// (package init run on demand) and are read-only afterwards
		w := x.w
		if lazyInitPkgs[path] && !w.stdInit[path] {
			w.stdInit[path] = true
			if f := g.Pkg.Func("init"); f != nil {
				saveTrail, saveDec := len(x.trail), x.decisions
				x.inStdInit++
				x.callFunction(f, nil, nil)
				x.inStdInit--
				if len(x.trail) != saveTrail {
					panic(abortSig{"unsupported", "package init of " + path + " forked"})
				}
				x.decisions = saveDec
			}
		}
		c, ok := w.stdGlobals[g]
		if !ok {
			c = new(Value)
			elem := g.Type().(*types.Pointer).Elem()
			*c = x.zero(elem)
			w.stdGlobals[g] = c
			if types.Identical(elem, x.eng.errorType) && !w.stdInit[path] {
				*c = x.newError(g.Pkg.Pkg.Name() + "." + g.Name())
			}
		}
		return Ptr{C: c}
	}
	c, ok := x.globals[g]
	if !ok {
		c = new(Value)
		elem := g.Type().(*types.Pointer).Elem()
		*c = x.zero(elem)
		x.globals[g] = c
	}
	return Ptr{C: c, Name: path + "." + g.Name()}
}

var lazyInitPkgs = map[string]bool{"encoding/xml": true}

func (x *Exec) newError(msg string) Value {
	// &errors.errorString{msg}
	es := x.eng.errorStringType
	cell := new(Value)
	*cell = StructV{x.ts.StrOf(msg)}
	return Iface{T: types.NewPointer(es), V: Ptr{C: cell}}
}

func (x *Exec) callFunction(fn *ssa.Function, args []Value, fenv []Value) Value {
	if x.depth > maxDepth {
		panic(abortSig{"limit", "recursion depth"})
	}
	if fn.Blocks == nil {
		x.unsupported("call to function without body: " + fn.String())
	}
	fi := x.eng.funcInfo(fn)
	var env []Value
	if pool := x.w.envPool[fi]; len(pool) > 0 {
		env = pool[len(pool)-1]
		x.w.envPool[fi] = pool[:len(pool)-1]
	} else {
		env = make([]Value, fi.n)
	}
	fr := &frame{x: x, fn: fn, env: env, idx: fi.idx, fenv: fenv}
	for i := range fn.Params {
		fr.env[i] = args[i]
	}
	x.depth++
	x.callStack = append(x.callStack, fn)
	if x.funcs != nil {
		x.funcs[fn]++
	}
	defer func() {
		x.depth--
		x.callStack = x.callStack[:len(x.callStack)-1]
	}()
	fr.block = fn.Blocks[0]
	res := fr.run()
	// registers are dead after a normal return (SSA values are written before they are read)
	x.w.envPool[fi] = append(x.w.envPool[fi], env)
	return res
}

func (fr *frame) run() (res Value) {
	x := fr.x
	if x.eng.funcInfo(fr.fn).hasDefer {
		defer func() {
			r := recover()
			if r == nil {
				return
			}
			tp, ok := r.(*targetPanic)
			if !ok {
				panic(r)
			}
			fr.panicking = tp
			fr.runDefers()
			if fr.panicking != nil {
				panic(fr.panicking)
			}
			// recovered
			if fr.fn.Recover != nil {
				fr.block = fr.fn.Recover
				fr.prev = nil
				res = fr.loop()
				return
			}
			res = x.zeroResults(fr.fn)
		}()
	}
	return fr.loop()
}

type fnInfo struct {
	idx      map[ssa.Value]int
	n        int
	hasDefer bool
	name     string
}

func (e *Engine) funcInfo(fn *ssa.Function) *fnInfo {
	if v, ok := e.fnInfos.Load(fn); ok {
		return v.(*fnInfo)
	}
	fi := &fnInfo{idx: map[ssa.Value]int{}, name: fn.String()}
	for _, p := range fn.Params {
		fi.idx[p] = fi.n
		fi.n++
	}
	for _, b := range fn.Blocks {
		for _, in := range b.Instrs {
			if v, ok := in.(ssa.Value); ok {
				fi.idx[v] = fi.n
				fi.n++
			}
		}
	}
	fi.hasDefer = hasDefer(fn)
	e.fnInfos.Store(fn, fi)
	return fi
}

func hasDefer(fn *ssa.Function) bool {
	for _, b := range fn.Blocks {
		for _, in := range b.Instrs {
			if _, ok := in.(*ssa.Defer); ok {
				return true
			}
		}
	}
	return false
}

func (x *Exec) zeroResults(fn *ssa.Function) Value {
	res := fn.Signature.Results()
	switch res.Len() {
	case 0:
		return nil
	case 1:
		return x.zero(res.At(0).Type())
	}
	return x.zero(res)
}

func (fr *frame) runDefers() {
	for len(fr.defers) > 0 {
		d := fr.defers[len(fr.defers)-1]
		fr.defers = fr.defers[:len(fr.defers)-1]
		fr.x.deferFrames = append(fr.x.deferFrames, fr)
		fr.x.callValue(d.fn, d.args, fr)
		fr.x.deferFrames = fr.x.deferFrames[:len(fr.x.deferFrames)-1]
	}
}

func (fr *frame) loop() Value {
	x := fr.x
	for {
		blk := fr.block
		var next *ssa.BasicBlock
		for _, instr := range blk.Instrs {
			x.steps++
			if x.steps > maxSteps {
				panic(abortSig{"limit", "instruction budget"})
			}
			switch in := instr.(type) {
			case *ssa.Phi:
				for i, p := range blk.Preds {
					if p == fr.prev {
						fr.env[fr.idx[in]] = fr.get(in.Edges[i])
						break
					}
				}
			case *ssa.Jump:
				next = blk.Succs[0]
			case *ssa.If:
				c := fr.get(in.Cond).(*Term)
				if x.branch(c, "if") {
					next = blk.Succs[0]
				} else {
					next = blk.Succs[1]
				}
			case *ssa.Return:
				var r Value
				switch len(in.Results) {
				case 0:
				case 1:
					r = fr.get(in.Results[0])
				default:
					t := make(Tuple, len(in.Results))
					for i, rv := range in.Results {
						t[i] = fr.get(rv)
					}
					r = t
				}
				return r
			case *ssa.RunDefers:
				fr.runDefers()
			case *ssa.Panic:
				v := fr.get(in.X)
				panic(&targetPanic{Msg: "panic: " + x.describe(v, 0), Site: fr.fn.String(), Val: v})
			default:
				fr.exec(instr)
			}
		}
		if next == nil {
			panic("block fell through: " + fr.fn.String())
		}
		fr.prev = blk
		fr.block = next
	}
}

func (fr *frame) exec(instr ssa.Instruction) {
	x := fr.x
	switch in := instr.(type) {
	case *ssa.DebugRef:
	case *ssa.Alloc:
		c := new(Value)
		*c = x.zero(in.Type().(*types.Pointer).Elem())
		fr.env[fr.idx[in]] = Ptr{C: c}
	case *ssa.UnOp:
		fr.env[fr.idx[in]] = fr.unop(in)
	case *ssa.BinOp:
		fr.env[fr.idx[in]] = x.binop(in.Op, in.X.Type(), fr.get(in.X), fr.get(in.Y))
	case *ssa.Call:
		fr.env[fr.idx[in]] = x.doCall(fr, &in.Call, in)
	case *ssa.Defer:
		fn, args := x.prepareCall(fr, &in.Call)
		fr.defers = append(fr.defers, deferred{fn: fn, args: args, site: in})
	case *ssa.Go:
		x.unsupported("go statement")
	case *ssa.ChangeInterface:
		fr.env[fr.idx[in]] = fr.get(in.X)
	case *ssa.ChangeType:
		fr.env[fr.idx[in]] = fr.get(in.X)
	case *ssa.Convert:
		fr.env[fr.idx[in]] = x.convert(in.X.Type(), in.Type(), fr.get(in.X))
	case *ssa.MakeInterface:
		fr.env[fr.idx[in]] = Iface{T: in.X.Type(), V: copyVal(fr.get(in.X))}
	case *ssa.Extract:
		fr.env[fr.idx[in]] = fr.get(in.Tuple).(Tuple)[in.Index]
	case *ssa.Field:
		fr.env[fr.idx[in]] = copyVal(fr.get(in.X).(StructV)[in.Field])
	case *ssa.FieldAddr:
		p := fr.get(in.X).(Ptr)
		if p.C == nil {
			x.tpanic("nil pointer dereference (field)")
		}
		s := (*p.C).(StructV)
		fr.env[fr.idx[in]] = Ptr{C: &s[in.Field]}
	case *ssa.Index:
		fr.env[fr.idx[in]] = fr.index(in)
	case *ssa.IndexAddr:
		fr.env[fr.idx[in]] = fr.indexAddr(in)
	case *ssa.Lookup:
		fr.env[fr.idx[in]] = fr.lookup(in)
	case *ssa.MakeMap:
		fr.env[fr.idx[in]] = x.newMap(in.Type())
	case *ssa.MakeSlice:
		ln := x.needInt(fr.get(in.Len), "makeslice len")
		cp := x.needInt(fr.get(in.Cap), "makeslice cap")
		if ln < 0 || cp < ln {
			x.tpanic("makeslice: len out of range")
		}
		if cp > 1<<20 {
			x.unsupported("makeslice too large")
		}
		a := x.newArr(cp)
		et := in.Type().Underlying().(*types.Slice).Elem()
		z := x.zero(et)
		for i := range a.E {
			a.E[i] = copyVal(z)
		}
		fr.env[fr.idx[in]] = Slice{A: a, Off: 0, Len: ln, Cap: cp}
	case *ssa.MakeClosure:
		env := make([]Value, len(in.Bindings))
		for i, b := range in.Bindings {
			env[i] = fr.get(b)
		}
		fr.env[fr.idx[in]] = &Closure{Fn: in.Fn.(*ssa.Function), Env: env}
	case *ssa.MapUpdate:
		m := fr.get(in.Map).(*MapObj)
		x.mapUpdate(m, fr.get(in.Key), copyVal(fr.get(in.Value)))
	case *ssa.Store:
		p := fr.get(in.Addr).(Ptr)
		x.store(p, fr.get(in.Val))
	case *ssa.Slice:
		fr.env[fr.idx[in]] = fr.slice(in)
	case *ssa.Range:
		fr.env[fr.idx[in]] = x.makeIter(fr.get(in.X), in.X.Type())
	case *ssa.Next:
		fr.env[fr.idx[in]] = x.iterNext(fr.get(in.Iter).(*MapIter), in)
	case *ssa.TypeAssert:
		fr.env[fr.idx[in]] = x.typeAssert(in, fr.get(in.X))
	case *ssa.SliceToArrayPointer:
		x.unsupported("SliceToArrayPointer")
	default:
		x.unsupported(fmt.Sprintf("instruction %T", instr))
	}
}

func (x *Exec) store(p Ptr, v Value) {
	if p.C == nil {
		x.tpanic("nil pointer dereference (store)")
	}
	if p.Owner != nil {
		x.logElemWrite(p.Owner, p.Idx, *p.C, v)
	} else if p.Name != "" {
		x.logGlobalWrite(p.Name, copyVal(*p.C), v)
	}
	storeInto(p.C, v)
}

func (x *Exec) needInt(v Value, what string) int {
	t := v.(*Term)
	if t.IsConst() {
		return int(t.SVal())
	}
	r := x.concretize(t, 0, 64, true, what)
	if r < 0 {
		x.unsupported("symbolic integer outside 0..63 for " + what)
	}
	return r
}

func (fr *frame) unop(in *ssa.UnOp) Value {
	x := fr.x
	v := fr.get(in.X)
	switch in.Op {
	case token.MUL: // load
		p := v.(Ptr)
		if p.C == nil {
			x.tpanic("nil pointer dereference (load)")
		}
		return copyVal(*p.C)
	case token.NOT:
		return x.ts.Not(v.(*Term))
	case token.SUB:
		t := v.(*Term)
		if t.S.K == KFP {
			return x.ts.FUn(OFNeg, t)
		}
		return x.ts.Neg(t)
	case token.XOR:
		return x.ts.BNot(v.(*Term))
	case token.ARROW:
		if _, ok := v.(ChanV); ok {
			// receive from time.After: the poll delay is a no-op
			return x.zero(in.Type())
		}
		x.unsupported("channel receive")
	}
	x.unsupported("unop " + in.Op.String())
	return nil
}

func (fr *frame) index(in *ssa.Index) Value {
	x := fr.x
	xv := fr.get(in.X)
	iv := fr.get(in.Index).(*Term)
	switch a := xv.(type) {
	case ArrayV:
		i := x.concretize(iv, 0, len(a), true, "index")
		if i < 0 {
			x.tpanic("index out of range (array)")
		}
		return copyVal(a[i])
	case Str:
		i := x.concretize(iv, 0, len(a.B), true, "index")
		if i < 0 {
			x.tpanic("index out of range (string)")
		}
		return a.B[i]
	}
	x.unsupported(fmt.Sprintf("Index on %T", xv))
	return nil
}

func (fr *frame) indexAddr(in *ssa.IndexAddr) Value {
	x := fr.x
	xv := fr.get(in.X)
	iv := fr.get(in.Index).(*Term)
	switch a := xv.(type) {
	case Slice:
		i := x.concretize(iv, 0, a.Len, true, "index")
		if i < 0 {
			x.tpanic(fmt.Sprintf("index out of range [%s] with length %d", x.describe(iv, 0), a.Len))
		}
		return Ptr{C: &a.A.E[a.Off+i], Owner: a.A, Idx: a.Off + i}
	case Ptr: // *array
		if a.C == nil {
			x.tpanic("nil pointer dereference (index)")
		}
		arr := (*a.C).(ArrayV)
		i := x.concretize(iv, 0, len(arr), true, "index")
		if i < 0 {
			x.tpanic("index out of range (array)")
		}
		return Ptr{C: &arr[i]}
	}
	x.unsupported(fmt.Sprintf("IndexAddr on %T", xv))
	return nil
}

func (fr *frame) lookup(in *ssa.Lookup) Value {
	x := fr.x
	xv := fr.get(in.X)
	if s, ok := xv.(Str); ok {
		iv := fr.get(in.Index).(*Term)
		i := x.concretize(iv, 0, len(s.B), true, "index")
		if i < 0 {
			x.tpanic(fmt.Sprintf("index out of range [%s] with length %d (string)", x.describe(iv, 0), len(s.B)))
		}
		return s.B[i]
	}
	m := xv.(*MapObj)
	k := fr.get(in.Index)
	v, ok := x.mapLookup(m, k)
	if !ok {
		v = x.zero(in.X.Type().Underlying().(*types.Map).Elem())
	} else {
		v = copyVal(v)
	}
	if in.CommaOk {
		return Tuple{v, x.ts.Bool(ok)}
	}
	return v
}

func (fr *frame) slice(in *ssa.Slice) Value {
	x := fr.x
	xv := fr.get(in.X)
	getb := func(v ssa.Value, def int, max int, what string) int {
		if v == nil {
			return def
		}
		t := fr.get(v).(*Term)
		r := x.concretize(t, 0, max+1, true, what)
		if r < 0 {
			x.tpanic(fmt.Sprintf("slice bounds out of range [%s] (limit %d)", x.describe(t, 0), max))
		}
		return r
	}
	switch a := xv.(type) {
	case Str:
		n := len(a.B)
		hi := getb(in.High, n, n, "slice high")
		lo := getb(in.Low, 0, hi, "slice low")
		return Str{a.B[lo:hi]}
	case Slice:
		mx := getb(in.Max, a.Cap, a.Cap, "slice max")
		hi := getb(in.High, a.Len, mx, "slice high")
		if in.High == nil && a.Len > mx {
			x.tpanic("slice bounds out of range")
		}
		lo := getb(in.Low, 0, hi, "slice low")
		if a.A == nil {
			return Slice{}
		}
		return Slice{A: a.A, Off: a.Off + lo, Len: hi - lo, Cap: mx - lo}
	case Ptr:
		if a.C == nil {
			x.tpanic("nil pointer dereference (slice)")
		}
		arr := (*a.C).(ArrayV)
		n := len(arr)
		mx := getb(in.Max, n, n, "slice max")
		hi := getb(in.High, n, mx, "slice high")
		lo := getb(in.Low, 0, hi, "slice low")
		x.serial++
		return Slice{A: &Arr{E: arr, Serial: x.serial}, Off: lo, Len: hi - lo, Cap: mx - lo}
	}
	x.unsupported(fmt.Sprintf("Slice on %T", xv))
	return nil
}

// ---- maps ----

func (x *Exec) keyEq(a, b Value) *Term {
	switch av := a.(type) {
	case Str:
		return x.ts.StrEq(av, b.(Str))
	case *Term:
		if av.S.K == KFP {
			return x.ts.FCmp(OFEq, av, b.(*Term))
		}
		return x.ts.Eq(av, b.(*Term))
	case Ptr:
		return x.ts.Bool(av.C == b.(Ptr).C)
	case Iface:
		return x.ifaceEq(av, b)
	case *Lazy:
		return x.ifaceEq(x.force(av), b)
	case StructV:
		bv := b.(StructV)
		r := x.ts.tTrue
		for i := range av {
			r = x.ts.And(r, x.keyEq(av[i], bv[i]))
		}
		return r
	case ArrayV:
		bv := b.(ArrayV)
		r := x.ts.tTrue
		for i := range av {
			r = x.ts.And(r, x.keyEq(av[i], bv[i]))
		}
		return r
	}
	x.unsupported(fmt.Sprintf("map key of type %T", a))
	return nil
}

// findEntry forks on which entry equals k; returns index or -1.
func (x *Exec) findEntry(m *MapObj, k Value) int {
	x.forceMapSize(m)
	n := len(m.Entries)
	if n == 0 {
		return -1
	}
	conds := make([]*Term, n+1)
	none := x.ts.tTrue
	for i, e := range m.Entries {
		c := x.keyEq(e.K, k)
		if c.IsTrue() {
			return i
		}
		conds[i] = c
		none = x.ts.And(none, x.ts.Not(c))
	}
	conds[n] = none
	r := x.choose("mapkey", conds, true)
	if r == n {
		return -1
	}
	return r
}

func (x *Exec) mapLookup(m *MapObj, k Value) (Value, bool) {
	if m == nil {
		return nil, false
	}
	i := x.findEntry(m, k)
	if i < 0 {
		return nil, false
	}
	return m.Entries[i].V, true
}

func (x *Exec) mapUpdate(m *MapObj, k Value, v Value) {
	if m == nil {
		x.tpanic("assignment to entry in nil map")
	}
	i := x.findEntry(m, k)
	if i >= 0 {
		x.logMapWrite(m, m.Entries[i], m.Entries[i].K, m.Entries[i].V, true, v, false)
		m.Entries[i].V = v
		return
	}
	ne := &MapEntry{K: k, V: v}
	x.logMapWrite(m, ne, k, nil, false, v, false)
	m.Entries = append(m.Entries, ne)
}

func (x *Exec) mapDelete(m *MapObj, k Value) {
	if m == nil {
		return
	}
	i := x.findEntry(m, k)
	if i < 0 {
		return
	}
	x.logMapWrite(m, m.Entries[i], m.Entries[i].K, m.Entries[i].V, true, nil, true)
	ne := make([]*MapEntry, 0, len(m.Entries)-1)
	ne = append(ne, m.Entries[:i]...)
	ne = append(ne, m.Entries[i+1:]...)
	m.Entries = ne
}

func (x *Exec) makeIter(v Value, t types.Type) Value {
	switch c := v.(type) {
	case Str:
		return &MapIter{IsStr: true, S: c}
	case *MapObj:
		it := &MapIter{M: c}
		if c != nil {
			x.forceMapSize(c)
			it.Remain = append([]*MapEntry(nil), c.Entries...)
		}
		return it
	}
	x.unsupported(fmt.Sprintf("range over %T", v))
	return nil
}

func (x *Exec) iterNext(it *MapIter, in *ssa.Next) Value {
	ts := x.ts
	if it.IsStr {
		if it.SPos >= len(it.S.B) {
			return Tuple{ts.tFals, ts.BV(64, 0), ts.BV(32, 0)}
		}
		b := it.S.B[it.SPos]
		pos := it.SPos
		if b.IsConst() && b.C >= 0x80 {
			// decode concrete multi-byte sequence if all bytes concrete
			r, n := x.decodeRune(it.S, pos)
			it.SPos += n
			return Tuple{ts.tTrue, ts.BV(64, uint64(pos)), ts.BV(32, uint64(r))}
		}
		if !b.IsConst() {
			if !x.branch(ts.Cmp(OULt, b, ts.BV(8, 0x80)), "rune-ascii") {
				x.unsupported("symbolic non-ASCII byte in string range")
			}
		}
		it.SPos++
		return Tuple{ts.tTrue, ts.BV(64, uint64(pos)), ts.ZExt(b, 32)}
	}
	// map: entries deleted during iteration are skipped; entries added may or may not appear (we skip them)
	for len(it.Remain) > 0 {
		var idx int
		if x.orderAll && len(it.Remain) > 1 {
			idx = x.pick("maporder", len(it.Remain))
		}
		e := it.Remain[idx]
		it.Remain = append(append([]*MapEntry(nil), it.Remain[:idx]...), it.Remain[idx+1:]...)
		// still present?
		present := false
		for _, ce := range it.M.Entries {
			if ce == e {
				present = true
				break
			}
		}
		if !present {
			continue
		}
		return Tuple{ts.tTrue, e.K, copyVal(e.V)}
	}
	mt := in.Iter.(*ssa.Range).X.Type().Underlying().(*types.Map)
	return Tuple{ts.tFals, x.zero(mt.Key()), x.zero(mt.Elem())}
}

func (x *Exec) decodeRune(s Str, pos int) (rune, int) {
	// concrete decode; symbolic continuation bytes unsupported
	var buf []byte
	for i := pos; i < len(s.B) && i < pos+4; i++ {
		if !s.B[i].IsConst() {
			if i == pos {
				break
			}
			x.unsupported("symbolic continuation byte in rune decoding")
		}
		buf = append(buf, byte(s.B[i].C))
	}
	r, n := decodeRuneBytes(buf)
	return r, n
}
