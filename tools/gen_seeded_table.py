#!/usr/bin/env python3
# prints the markdown table of seeded changes whose number is in the given set, e.g. gen_seeded_table.py 3 4
import json,glob,os,sys
want=set(sys.argv[1:])
print("| change | what it does | first run | now (harness that catches it, if new) |\n|---|---|---|---|")
for d in sorted(glob.glob('/verif/seeded/*/meta.json')):
    n=os.path.basename(os.path.dirname(d))
    if want and n.split('-m')[1] not in want: continue
    m=json.load(open(d))
    s=m.get('summary','').replace('|','/').replace('\n',' ')
    if len(s)>170: s=s[:170]+'…'
    by=(m.get('detected_by','') or '').split(' [')[0]
    now=m.get('detected_by_check')
    if m.get('first_run')!='yes' and by: now+=" (%s)"%by
    print("| %s | %s | %s | %s |"%(n,s,m.get('first_run','?'),now))
