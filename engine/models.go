package main

// Engine-side models of standard-library calls that are not expressed as Go prelude
// functions (formatting, errors with formatted text, no-ops).

import (
	"strings"
	"fmt"
	"go/types"
	"math"
	"strconv"

	"golang.org/x/tools/go/ssa"
)

func init() {
	mm := map[string]intrinsic{
		"fmt.Errorf": func(x *Exec, fr *frame, fn *ssa.Function, a []Value) Value {
			f, _ := a[0].(Str).Concrete()
			e := x.newError("fmt.Errorf: " + f)
			// %w: the result wraps the corresponding operand (errors.Is / errors.Unwrap see it)
			if i := strings.Index(f, "%w"); i >= 0 {
				n := strings.Count(f[:i], "%") - 2*strings.Count(f[:i], "%%")
				if args := sliceVals(a[1]); n >= 0 && n < len(args) {
					x.side[fmt.Sprintf("wrap:%p", e.(Iface).V.(Ptr).C)] = args[n]
				}
			}
			return e
		},
		// errors.Is: identity along the chain of %w wrappers (errors with their own Is or
		// Unwrap methods are a model limit)
		"errors.Is": func(x *Exec, fr *frame, fn *ssa.Function, a []Value) Value {
			cur := x.asIface(a[0])
			target := x.asIface(a[1])
			if target.T == nil {
				return x.ts.Bool(cur.T == nil)
			}
			for depth := 0; depth < 8; depth++ {
				if cur.T == nil {
					return x.ts.tFals
				}
				eq := x.ifaceEq(cur, target)
				if eq.IsConst() {
					if eq.C == 1 {
						return x.ts.tTrue
					}
				} else if x.branch(eq, "errors-is") {
					return x.ts.tTrue
				}
				p, isPtr := cur.V.(Ptr)
				if !isPtr {
					return x.ts.tFals
				}
				w, ok := x.side[fmt.Sprintf("wrap:%p", p.C)]
				if !ok {
					if x.eng.lookupMethodByName(cur.T, "Unwrap") != nil || x.eng.lookupMethodByName(cur.T, "Is") != nil {
						x.unsupported("model limit: errors.Is on an error type with Unwrap or Is methods")
					}
					return x.ts.tFals
				}
				cur = x.asIface(w)
			}
			return x.ts.tFals
		},
		"fmt.Sprintf": func(x *Exec, fr *frame, fn *ssa.Function, a []Value) Value {
			return x.sprintfAny(a[0].(Str), sliceVals(a[1]))
		},
		// fmt.Fprintf(w, format, args...): formatted like Sprintf, then handed to w.Write
		"fmt.Fprintf": func(x *Exec, fr *frame, fn *ssa.Function, a []Value) Value {
			out := x.sprintfAny(a[1].(Str), sliceVals(a[2]))
			it := x.asIface(a[0])
			if it.T == nil {
				x.tpanic("nil pointer dereference (Fprintf to a nil io.Writer)")
			}
			m := x.eng.lookupMethodByName(it.T, "Write")
			if m == nil {
				x.unsupported("fmt.Fprintf: writer without a Write method")
			}
			arr := x.newArr(len(out.B))
			for i, t := range out.B {
				arr.E[i] = t
			}
			return x.callFn(m, []Value{it.V, Slice{A: arr, Len: len(out.B), Cap: len(out.B)}}, nil, fr)
		},
		// encoding/gob is reflection driven and not encoded. Contract stubs for the encoder
		// side only: NewEncoder remembers its writer, Encode reads its argument (it never
		// writes it) and hands one opaque byte per call to the writer, returning nil or an
		// error (free choice). The bytes are not decodable: NewDecoder stays unsupported.
		"encoding/gob.NewEncoder": func(x *Exec, fr *frame, fn *ssa.Function, a []Value) Value {
			x.side["gob-writer"] = a[0]
			cell := new(Value)
			*cell = StructV{}
			return Ptr{C: cell}
		},
		"(*encoding/gob.Encoder).Encode": func(x *Exec, fr *frame, fn *ssa.Function, a []Value) Value {
			if x.pick("gob-encode-error", 2) == 1 {
				return x.newError("gob: encode error (stub)")
			}
			if w, ok := x.side["gob-writer"]; ok {
				it := x.asIface(w)
				if m := x.eng.lookupMethodByName(it.T, "Write"); m != nil && it.T != nil {
					arr := x.newArr(1)
					arr.E[0] = x.ts.BV(8, 0x2a)
					x.callFn(m, []Value{it.V, Slice{A: arr, Len: 1, Cap: 1}}, nil, fr)
				}
			}
			return Iface{}
		},
		// sort.Slice / sort.SliceStable: insertion sort with the caller's less function (stable;
		// for sort.Slice one of the permitted results). The swaps are ordinary writes to the slice.
		"sort.SliceStable": sortSliceModel,
		"sort.Slice":       sortSliceModel,
		// sync.Map as an association list per Map object (key equality as for interfaces)
		"(*sync.Map).Load": func(x *Exec, fr *frame, fn *ssa.Function, a []Value) Value {
			if v, ok := x.syncMapFind(a[0], a[1]); ok {
				return Tuple{v, x.ts.tTrue}
			}
			return Tuple{Iface{}, x.ts.tFals}
		},
		"(*sync.Map).Store": func(x *Exec, fr *frame, fn *ssa.Function, a []Value) Value {
			x.syncMapPut(a[0], a[1], a[2])
			return nil
		},
		"(*sync.Map).LoadOrStore": func(x *Exec, fr *frame, fn *ssa.Function, a []Value) Value {
			if v, ok := x.syncMapFind(a[0], a[1]); ok {
				return Tuple{v, x.ts.tTrue}
			}
			x.syncMapPut(a[0], a[1], a[2])
			return Tuple{a[2], x.ts.tFals}
		},
		"fmt.Sprint": func(x *Exec, fr *frame, fn *ssa.Function, a []Value) Value {
			args := sliceVals(a[0])
			var out []*Term
			for _, v := range args {
				out = append(out, x.formatV(v, 'v').B...)
			}
			return Str{out}
		},
		"fmt.Println": func(x *Exec, fr *frame, fn *ssa.Function, a []Value) Value {
			return Tuple{x.ts.BV(64, 0), Iface{}}
		},
		"fmt.Printf": func(x *Exec, fr *frame, fn *ssa.Function, a []Value) Value {
			return Tuple{x.ts.BV(64, 0), Iface{}}
		},
		"fmt.Print": func(x *Exec, fr *frame, fn *ssa.Function, a []Value) Value {
			return Tuple{x.ts.BV(64, 0), Iface{}}
		},
		"strconv.FormatFloat": func(x *Exec, fr *frame, fn *ssa.Function, a []Value) Value {
			f := a[0].(*Term)
			if !f.IsConst() {
				x.unsupported("model limit: strconv.FormatFloat of a symbolic value")
			}
			fmtc := byte(cint(x, a[1], "format"))
			return x.ts.StrOf(strconv.FormatFloat(math.Float64frombits(f.C), fmtc, cint(x, a[2], "precision"), cint(x, a[3], "bitSize")))
		},
		"(*sync.Pool).Get": func(x *Exec, fr *frame, fn *ssa.Function, a []Value) Value {
			p := a[0].(Ptr)
			key := fmt.Sprintf("pool:%p", p.C)
			if l, ok := x.side[key].([]Value); ok && len(l) > 0 {
				v := l[len(l)-1]
				x.side[key] = l[:len(l)-1]
				return v
			}
			sv := (*p.C).(StructV)
			newf := sv[len(sv)-1]
			if c, ok := newf.(*Closure); ok && c != nil {
				return x.callValue(c, nil, fr)
			}
			return Iface{}
		},
		"(*sync.Pool).Put": func(x *Exec, fr *frame, fn *ssa.Function, a []Value) Value {
			p := a[0].(Ptr)
			key := fmt.Sprintf("pool:%p", p.C)
			l, _ := x.side[key].([]Value)
			x.side[key] = append(l, a[1])
			return nil
		},
		"(*sync.Mutex).Lock":      func(x *Exec, fr *frame, fn *ssa.Function, a []Value) Value { return nil },
		"(*sync.Mutex).Unlock":    func(x *Exec, fr *frame, fn *ssa.Function, a []Value) Value { return nil },
		"(*sync.RWMutex).Lock":    func(x *Exec, fr *frame, fn *ssa.Function, a []Value) Value { return nil },
		"(*sync.RWMutex).Unlock":  func(x *Exec, fr *frame, fn *ssa.Function, a []Value) Value { return nil },
		"(*sync.RWMutex).RLock":   func(x *Exec, fr *frame, fn *ssa.Function, a []Value) Value { return nil },
		"(*sync.RWMutex).RUnlock": func(x *Exec, fr *frame, fn *ssa.Function, a []Value) Value { return nil },
		"time.After": func(x *Exec, fr *frame, fn *ssa.Function, a []Value) Value { return ChanV{} },
		"time.Sleep": func(x *Exec, fr *frame, fn *ssa.Function, a []Value) Value { return nil },
		"strconv.FormatBool": func(x *Exec, fr *frame, fn *ssa.Function, a []Value) Value {
			return x.formatV(a[0], 'v')
		},
		"strconv.FormatInt": func(x *Exec, fr *frame, fn *ssa.Function, a []Value) Value {
			if cint(x, a[1], "base") != 10 {
				x.unsupported("FormatInt base")
			}
			return x.formatInt(a[0].(*Term), true)
		},
	}
	for k, v := range mm {
		models[k] = v
	}
}

func sliceVals(v Value) []Value {
	s, ok := v.(Slice)
	if !ok || s.A == nil {
		return nil
	}
	return append([]Value(nil), s.A.E[s.Off:s.Off+s.Len]...)
}

// sprintfAny: a concrete format string goes through sprintf; a format string with symbolic
// bytes (data used as a format) is interpreted byte by byte for the argument-less case:
// "%%" is a percent sign, "%" + verb with no operand left is "%!verb(MISSING)", a trailing
// "%" is "%!(NOVERB)"; flags, widths and operands with a symbolic format are a model limit.
func (x *Exec) sprintfAny(f Str, args []Value) Str {
	if cs, ok := f.Concrete(); ok {
		return x.sprintf(cs, args)
	}
	if len(args) > 0 {
		x.unsupported("model limit: fmt format string with symbolic bytes and operands")
	}
	ts := x.ts
	var out []*Term
	for i := 0; i < len(f.B); i++ {
		c := f.B[i]
		if !x.branch(ts.Eq(c, ts.BV(8, '%')), "fmt-percent") {
			out = append(out, c)
			continue
		}
		i++
		if i >= len(f.B) {
			out = append(out, ts.StrOf("%!(NOVERB)").B...)
			break
		}
		v := f.B[i]
		if x.branch(ts.Eq(v, ts.BV(8, '%')), "fmt-percent2") {
			out = append(out, ts.BV(8, '%'))
			continue
		}
		for _, fl := range []byte("#0+- 123456789.*[") {
			if x.branch(ts.Eq(v, ts.BV(8, uint64(fl))), "fmt-flag") {
				x.unsupported("model limit: flags or width after a symbolic percent sign in a format string")
			}
		}
		if x.branch(ts.Cmp(OULt, ts.BV(8, 0x7f), v), "fmt-nonascii") {
			x.unsupported("model limit: non-ASCII verb in a format string")
		}
		out = append(out, ts.StrOf("%!").B...)
		out = append(out, v)
		out = append(out, ts.StrOf("(MISSING)").B...)
	}
	return Str{out}
}

func (x *Exec) sprintf(f string, args []Value) Str {
	var out []*Term
	ai := 0
	for i := 0; i < len(f); i++ {
		c := f[i]
		if c != '%' {
			out = append(out, x.ts.BV(8, uint64(c)))
			continue
		}
		i++
		if i >= len(f) {
			break
		}
		if f[i] == '%' {
			out = append(out, x.ts.BV(8, '%'))
			continue
		}
		plus := false
		if f[i] == '+' {
			plus = true
			i++
		}
		_ = plus
		verb := f[i]
		if ai >= len(args) {
			out = append(out, x.ts.StrOf("%!"+string(verb)+"(MISSING)").B...)
			continue
		}
		arg := args[ai]
		ai++
		switch verb {
		case 'v', 's', 'd':
			out = append(out, x.formatV(arg, verb).B...)
		case 'U', 'x', 'X', 'c':
			out = append(out, x.ts.StrOf("?").B...)
			_ = arg
		case 'T':
			it := x.asIface(arg)
			out = append(out, x.ts.StrOf(typeStr(it.T)).B...)
		case 'q':
			it := x.asIface(arg)
			if s, ok := it.V.(Str); ok {
				if cs, ok := s.Concrete(); ok {
					out = append(out, x.ts.StrOf(strconv.Quote(cs)).B...)
					continue
				}
			}
			x.unsupported("%q of symbolic value")
		default:
			x.unsupported("format verb %" + string(verb))
		}
	}
	return Str{out}
}

// formatV renders a value the way %v does (exact for strings, bools, nil and concrete
// integers; symbolic integers are enumerated over a small range).
func (x *Exec) formatV(v Value, verb byte) Str {
	if it, ok := v.(Iface); ok {
		if rv, isRV := it.V.(ReflectV); isRV { // fmt prints the value a reflect.Value holds
			return x.formatV(rv.I, verb)
		}
	}
	switch c := v.(type) {
	case ReflectV:
		return x.formatV(c.I, verb)
	case Iface, *Lazy:
		it := x.asIface(c)
		if it.T == nil {
			if verb == 's' {
				return x.ts.StrOf("%!s(<nil>)")
			}
			return x.ts.StrOf("<nil>")
		}
		// error values and Stringers
		if types.Implements(it.T, x.eng.errorIface()) {
			m := x.eng.lookupMethodByName(it.T, "Error")
			if m != nil {
				r := x.callFn(m, []Value{it.V}, nil, nil)
				return r.(Str)
			}
		}
		return x.formatTyped(it.T, it.V, verb)
	case Str:
		return c
	case *Term:
		switch c.S.K {
		case KBool:
			if x.branch(c, "fmt-bool") {
				return x.ts.StrOf("true")
			}
			return x.ts.StrOf("false")
		case KBV:
			return x.formatInt(c, true)
		}
	}
	x.unsupported(fmt.Sprintf("format of %T", v))
	return Str{}
}

func (x *Exec) formatTyped(t types.Type, v Value, verb byte) Str {
	switch u := t.Underlying().(type) {
	case *types.Basic:
		switch {
		case u.Info()&types.IsString != 0:
			return v.(Str)
		case u.Info()&types.IsBoolean != 0:
			return x.formatV(v, verb)
		case u.Info()&types.IsInteger != 0:
			_, signed, _ := bvWidthOf(u)
			return x.formatInt(v.(*Term), signed)
		case u.Info()&types.IsFloat != 0:
			return x.formatFloat(v.(*Term))
		}
	case *types.Slice:
		if b, ok := u.Elem().Underlying().(*types.Basic); ok && b.Kind() == types.Uint8 && verb == 's' {
			s := v.(Slice)
			bs := make([]*Term, s.Len)
			for i := range bs {
				bs[i] = s.A.E[s.Off+i].(*Term)
			}
			return Str{bs}
		}
	}
	if m, isMap := v.(*MapObj); isMap {
		if m == nil {
			return x.ts.StrOf("map[]")
		}
		x.forceMapSize(m)
		if len(m.Entries) == 0 {
			return x.ts.StrOf("map[]") // %v of an empty map; non-empty maps are a model limit
		}
	}
	x.unsupported("format of value of type " + typeStr(t))
	return Str{}
}

func (x *Exec) formatInt(t *Term, signed bool) Str {
	if t.IsConst() {
		if signed {
			return x.ts.StrOf(strconv.FormatInt(t.SVal(), 10))
		}
		return x.ts.StrOf(strconv.FormatUint(t.C, 10))
	}
	r, ok := x.concretizeOK(t, -16, 284, signed, "fmt-int")
	if !ok {
		x.unsupported("format of symbolic integer outside the enumerated range -16..283")
	}
	return x.ts.StrOf(strconv.Itoa(r))
}

// formatFloat: the text of a float64 under %v is a symbolic numeral ("0", "D", "-D" or
// "D.D" with non-zero digits) tied to the value by the documented round-trip contract
// ParseFloat(format(f)) == f (the conversion itself is the uninterpreted pfdec).
func (x *Exec) formatFloat(f *Term) Str {
	if f.IsConst() {
		return x.ts.StrOf(strconv.FormatFloat(math.Float64frombits(f.C), 'g', -1, 64))
	}
	return x.symFloatText(f, &x.floatTexts)
}

func (x *Exec) symFloatText(f *Term, memo *[]floatText) Str {
	for _, ft := range *memo {
		if ft.F == f {
			return ft.S
		}
	}
	ts := x.ts
	var s Str
	if x.branch(ts.FCmp(OFEq, f, ts.FP(0)), "float-zero") {
		s = ts.StrOf("0")
	} else {
		d := func() *Term {
			b := x.fresh("c", SBV8)
			x.constrainAlpha(b, "123456789")
			return b
		}
		switch x.pick("float-form", 3) {
		case 0:
			s = Str{[]*Term{d()}}
		case 1:
			s = Str{[]*Term{ts.BV(8, '-'), d()}}
		default:
			s = Str{[]*Term{d(), ts.BV(8, '.'), d()}}
		}
		r := models["strconv.ParseFloat"](x, nil, nil, []Value{s, ts.BV(64, 64)}).(Tuple)
		x.addPC(ts.FCmp(OFEq, r[0].(*Term), f))
	}
	*memo = append(*memo, floatText{f, s})
	return s
}

type floatText struct {
	F *Term
	S Str
}

func (e *Engine) errorIface() *types.Interface {
	return e.errorType.Underlying().(*types.Interface)
}

func (e *Engine) lookupMethodByName(t types.Type, name string) *ssa.Function {
	ms := e.prog.MethodSets.MethodSet(t)
	for i := 0; i < ms.Len(); i++ {
		if ms.At(i).Obj().Name() == name {
			return e.prog.MethodValue(ms.At(i))
		}
	}
	return nil
}

// ChanV stands for the channel returned by time.After.
type ChanV struct{}

func sortSliceModel(x *Exec, fr *frame, fn *ssa.Function, a []Value) Value {
	it := x.asIface(a[0])
	sl, ok := it.V.(Slice)
	if !ok {
		x.tpanic("sort.Slice: argument is not a slice")
	}
	less := a[1]
	for i := 1; i < sl.Len; i++ {
		for j := i; j > 0; j-- {
			r := x.callValue(less, []Value{x.ts.BV(64, uint64(j)), x.ts.BV(64, uint64(j-1))}, fr)
			t, _ := r.(*Term)
			if t == nil || !x.branch(t, "sort-less") {
				break
			}
			p, q := sl.Off+j, sl.Off+j-1
			vp, vq := sl.A.E[p], sl.A.E[q]
			x.logElemWrite(sl.A, p, vp, vq)
			x.logElemWrite(sl.A, q, vq, vp)
			sl.A.E[p], sl.A.E[q] = vq, vp
		}
	}
	return nil
}

type syncMapEntry struct{ k, v Value }

func (x *Exec) syncMapKey(m Value) string { return fmt.Sprintf("syncmap:%p", m.(Ptr).C) }

func (x *Exec) syncMapFind(m, k Value) (Value, bool) {
	es, _ := x.side[x.syncMapKey(m)].([]syncMapEntry)
	for _, e := range es {
		eq := x.ifaceEq(x.asIface(e.k), x.asIface(k))
		if eq.IsConst() {
			if eq.C == 1 {
				return e.v, true
			}
			continue
		}
		if x.branch(eq, "syncmap-key") {
			return e.v, true
		}
	}
	return nil, false
}

func (x *Exec) syncMapPut(m, k, v Value) {
	key := x.syncMapKey(m)
	es, _ := x.side[key].([]syncMapEntry)
	for i, e := range es {
		eq := x.ifaceEq(x.asIface(e.k), x.asIface(k))
		if (eq.IsConst() && eq.C == 1) || (!eq.IsConst() && x.branch(eq, "syncmap-key")) {
			ne := append([]syncMapEntry(nil), es...)
			ne[i].v = v
			x.side[key] = ne
			return
		}
	}
	x.side[key] = append(append([]syncMapEntry(nil), es...), syncMapEntry{k, v})
}
