package mxj

import (
	"bytes"
	"encoding/json"
	"encoding/xml"
	"io"
)

func init() {
	vHarnesses["H_C15_args"] = H_C15_args
	vHarnesses["H_C15_args_update"] = H_C15_args_update
	vHarnesses["H_C15_args_index"] = H_C15_args_index
	vHarnesses["H_C15_xml_bytes"] = H_C15_xml_bytes
	vHarnesses["H_C15_xmlseq_bytes"] = H_C15_xmlseq_bytes
	vHarnesses["H_C15_json_bytes"] = H_C15_json_bytes
	vHarnesses["H_C15_json_exact"] = H_C15_json_exact
	vHarnesses["H_C15_xml_opts"] = H_C15_xml_opts
	vHarnesses["H_C15_seq_cast"] = H_C15_seq_cast
	vHarnesses["H_C15_encode_opts"] = H_C15_encode_opts
}

const vArgAlpha = ".[]-09:!*a"

func vArgLen() int {
	return vP("arg", 5, 4)
}

// (a) query methods with arbitrary argument strings on Maps that may contain empty keys
func H_C15_args() {
	vResetDecOpts()
	w := vP("width", 1, 2)
	m := Map(vNondetMap(vSpec{Depth: vP("depth", 2, 2), Width: w, Kinds: "mls", KeyAlpha: "a0", KeyMin: 0, KeyMax: 1, StrAlpha: "x", StrMax: 0}))
	arg := vNondetString(0, vArgLen(), vArgAlpha)
	which := vChoose(8)
	panicked := vCatch(func() {
		switch which {
		case 0:
			_, _ = m.ValuesForPath(arg)
		case 1:
			_, _ = m.ValuesForPath("a", arg) // as a sub-key spec
		case 2:
			_, _ = m.ValuesForKey(arg)
		case 3:
			_, _ = m.ValuesForKey("a", arg)
		case 4:
			_, _ = m.Exists(arg)
			_ = m.PathsForKey(arg)
			_ = m.PathForKeyShortest(arg)
		case 5:
			_ = m.LeafNodes()
			_ = m.LeafPaths(true)
			_ = m.LeafValues()
		case 6:
			_, _ = m.Elements(arg)
			_, _ = m.Attributes(arg)
		default:
			_, _ = m.ValueForPath(arg)
			_, _ = m.ValueForKey(arg)
		}
	})
	vAssert(!panicked, "args: query methods return a result or an error for arbitrary argument strings, they never panic")
	vCover("args")
}

// (a) negative, huge and malformed indexes in paths
func H_C15_args_index() {
	vResetDecOpts()
	m := Map(vNondetMap(vSpec{Depth: 3, Width: 1, Kinds: "mls", KeyAlpha: "a", KeyMin: 1, KeyMax: 1, StrAlpha: "x", StrMax: 0}))
	arg := "a[" + vNondetString(0, 3, "-09]") + "]" + []string{"", ".a", "[0]", ".a[-0]"}[vChoose(4)]
	if vChoose(3) == 0 {
		// indexes at the edges of the 32- and 64-bit ranges
		huge := []string{"2147483647", "2147483648", "4294967295", "4294967296", "9223372036854775807", "9223372036854775808", "-9223372036854775808", "18446744073709551615", "18446744073709551616", "-2147483648", "-2147483649"}
		arg = "a[" + huge[vChoose(len(huge))] + "]" + []string{"", ".a"}[vChoose(2)]
		vCover("huge")
	}
	if vChoose(4) == 0 {
		// indexes around the length of a list that is as long as the initial result capacity
		n := 31 + vChoose(3)
		l := make([]interface{}, n)
		for i := range l {
			l[i] = "v"
		}
		m = Map{"a": l}
		arg = "a[" + m_strconv_Itoa(n-1+vChoose(3)) + "]"
		vCover("capacity")
	}
	which := vChoose(4)
	panicked := vCatch(func() {
		switch which {
		case 0:
			_, _ = m.ValuesForPath(arg)
		case 1:
			_, _ = m.Exists(arg)
			_, _ = m.ValueForPath(arg)
		case 2:
			_, _ = m.Elements(arg)
		default:
			_, _ = m.NewMap(arg + ":n")
		}
	})
	vAssert(!panicked, "args: indexed paths with negative, huge or malformed indexes give a result or an error, never a panic")
	vCover("index")
}

// (a) update methods
func H_C15_args_update() {
	vResetDecOpts()
	w := vP("width", 1, 2)
	m := Map(vNondetMap(vSpec{Depth: vP("depth", 2, 2), Width: w, Kinds: "mls", KeyAlpha: "a0", KeyMin: 0, KeyMax: 1, StrAlpha: "x", StrMax: 0}))
	arg := vNondetString(0, vArgLen(), vArgAlpha)
	which := vChoose(7)
	panicked := vCatch(func() {
		switch which {
		case 0:
			_ = m.SetValueForPath("v", arg)
		case 1:
			_ = m.Remove(arg)
		case 2:
			_ = m.RenameKey(arg, "n")
			_ = m.RenameKey("a", arg)
		case 3:
			_, _ = m.UpdateValuesForPath(arg, "a")
		case 4:
			_, _ = m.UpdateValuesForPath("a:v", arg)
		case 5:
			_, _ = m.UpdateValuesForPath("a:v", "a", arg)
		default:
			_, _ = m.NewMap(arg)
		}
	})
	vAssert(!panicked, "args: update methods return a result or an error for arbitrary argument strings, they never panic")
	vCover("args")
}

// refXmlFirstDoc: does the standard tokenizer accept the first document? (0 = no root
// element before the end of input, 1 = accepted, 2 = rejected)
func refXmlFirstDoc(b []byte) int {
	d := xml.NewDecoder(bytes.NewReader(b))
	depth := 0
	for {
		t, err := d.Token()
		if err != nil {
			if err == io.EOF && depth == 0 {
				return 0
			}
			return 2
		}
		switch t.(type) {
		case xml.StartElement:
			depth++
		case xml.EndElement:
			depth--
			if depth == 0 {
				return 1
			}
		}
	}
}

const vXmlAlpha = "<>/a=\"&;!-? "

// (b) XML decoders on arbitrary bytes
func H_C15_xml_bytes() {
	vResetDecOpts()
	n := vP("bytes", 7, 8)
	in := []byte(vNondetString(0, n, vXmlAlpha))
	ref := refXmlFirstDoc(in)
	form := vChoose(3)
	var m Map
	var err error
	panicked := vCatch(func() {
		switch form {
		case 0:
			m, err = NewMapXml(in)
		case 1:
			m, err = NewMapXmlReader(bytes.NewReader(in))
		default:
			m, _, err = NewMapXmlReaderRaw(bytes.NewReader(in))
		}
	})
	vAssert(!panicked, "xml bytes: decoders never panic on arbitrary input")
	if err != nil {
		vAssert(m == nil, "xml bytes: an error comes with no partial Map")
		vCover("rejected")
	} else {
		vAssert(m != nil, "xml bytes: success comes with a Map")
		vCover("accepted")
	}
	vAssert((err == nil) == (ref == 1), "xml bytes: decoding fails exactly when the standard tokenizer rejects the first document (or there is none)")
	if err == nil {
		p2 := vCatch(func() {
			_, _ = m.Xml()
			_, _ = m.XmlIndent("", " ")
			_, _ = m.Json()
		})
		vAssert(!p2, "xml bytes: every decoded Map can be passed to the encoders without a panic")
	}
}

// (b) sequence decoders and BeautifyXml on arbitrary bytes
func H_C15_xmlseq_bytes() {
	vResetDecOpts()
	n := vP("bytes", 6, 7)
	in := []byte(vNondetString(0, n, vXmlAlpha))
	form := vChoose(4)
	var m MapSeq
	var err error
	panicked := vCatch(func() {
		switch form {
		case 0:
			m, err = NewMapXmlSeq(in)
		case 1:
			m, err = NewMapXmlSeqReader(bytes.NewReader(in))
		case 2:
			m, err = NewMapFormattedXmlSeq(in)
		default:
			_, err = BeautifyXml(in, "", " ")
		}
	})
	vAssert(!panicked, "xmlseq bytes: sequence decoders and BeautifyXml never panic on arbitrary input")
	if form < 3 {
		if err != nil && err != NoRoot {
			vAssert(m == nil, "xmlseq bytes: an error (other than the documented no-root result) comes with no partial Map")
			vCover("rejected")
		}
		if err == nil {
			vAssert(m != nil, "xmlseq bytes: success comes with a MapSeq")
			vCover("accepted")
			mixed := vSeqHasMixed(m)
			p2 := vCatch(func() {
				_, _ = m.Xml()
				_, _ = m.XmlIndent("", " ")
			})
			if p2 && mixed && vKnown("C04-text-beside-children") {
				vKnownHit("C04-text-beside-children")
				return
			}
			vAssert(!p2, "xmlseq bytes: every decoded MapSeq can be passed to the encoders without a panic")
		}
	}
}

// vSeqHasMixed: some element map holds a bare #text string beside other content keys.
func vSeqHasMixed(v interface{}) bool {
	switch c := v.(type) {
	case MapSeq:
		return vSeqHasMixed(map[string]interface{}(c))
	case map[string]interface{}:
		_, hasText := c["#text"].(string)
		others := 0
		for k, e := range c {
			if k != "#text" && k != "#seq" && k != "#attr" {
				others++
			}
			if vSeqHasMixed(e) {
				return true
			}
		}
		return hasText && others > 0
	case []interface{}:
		for _, e := range c {
			if vSeqHasMixed(e) {
				return true
			}
		}
	}
	return false
}

// (d) JSON decoders on arbitrary bytes under any schedule
func H_C15_json_bytes() {
	n := vP("bytes", 4, 5)
	in := []byte(vNondetString(0, n, "{}[]\":, \\a1"))
	form := vChoose(3)
	var m Map
	var err error
	panicked := vCatch(func() {
		switch form {
		case 0:
			m, err = NewMapJson(in)
		case 1:
			m, err = NewMapJsonReader(vNondetSched(in))
		default:
			m, _, err = NewMapJsonReaderRaw(vNondetSched(in))
		}
	})
	vAssert(!panicked, "json bytes: decoders never panic on arbitrary input")
	if form == 0 && len(in) > 0 {
		blank := true
		for _, c := range in {
			if c != ' ' {
				blank = false
			}
		}
		if blank {
			vAssert(err != nil, "json bytes: input of white space only is rejected as encoding/json rejects it (only the empty input is the empty Map)")
		}
	}
	if err == nil && len(in) > 0 && form == 0 {
		vAssert(m != nil, "json bytes: success comes with a Map")
	}
	if err == nil && m != nil {
		p2 := vCatch(func() { _, _ = m.Json(); _, _ = m.Xml() })
		vAssert(!p2, "json bytes: every decoded Map can be passed to the encoders without a panic")
		vCover("accepted")
	} else {
		vCover("rejected")
	}
}

// every Map produced by a decoder can be encoded without a panic, under every attribute
// prefix length and key-length combination
func H_C15_encode_opts() {
	vResetDecOpts()
	prefix := []string{"-", "", "@@", "at_", "attr_"}[vChoose(5)]
	n1 := vNondetString(1, 3, "ab")
	n2 := vNondetString(1, 2, "ab")
	doc := "<" + n1 + " " + n2 + "=\"1\"><" + n2 + ">x</" + n2 + "><" + n1 + "><c/></" + n1 + "></" + n1 + ">"
	SetAttrPrefix(prefix)
	m, err := NewMapXml([]byte(doc))
	ms, serr := NewMapXmlSeq([]byte(doc))
	vAssert(err == nil && serr == nil, "encode opts: the document decodes")
	panicked := vCatch(func() {
		_, _ = m.Xml()
		_, _ = m.XmlIndent("", " ")
		_, _ = ms.Xml()
		_ = m.LeafNodes(true)
		_, _ = m.Attributes(n1)
		_, _ = m.Elements(n1)
	})
	SetAttrPrefix("-")
	vAssert(!panicked, "encode opts: a decoded Map is encoded and queried without a panic under every attribute prefix")
	vCover("prefixes")
}

// (d) the JSON reader forms fail exactly when encoding/json rejects the first document:
// an object whose string value ends in free bytes (backslashes, quotes, braces)
func H_C15_json_exact() {
	free := vNondetString(0, 3, "\\\"x}")
	in := []byte("{\"a\":\"" + free + "\"}" + []string{"", " ", "{\"b\":1}"}[vChoose(3)])
	var ref map[string]interface{}
	rerr := json.NewDecoder(bytes.NewReader(in)).Decode(&ref)
	form := vChoose(2)
	var m Map
	var err error
	panicked := vCatch(func() {
		if form == 0 {
			m, err = NewMapJsonReader(vNondetSched(in))
		} else {
			m, _, err = NewMapJsonReaderRaw(vNondetSched(in))
		}
	})
	vAssert(!panicked, "json exact: reader forms never panic")
	if rerr == nil {
		vAssert(err == nil, "json exact: a first document that encoding/json accepts is accepted by the reader forms")
		vAssert(vDeepEq(map[string]interface{}(m), ref), "json exact: and decodes to the same Map")
		vCover("accepted")
	} else {
		vAssert(err != nil, "json exact: a first document that encoding/json rejects is rejected")
		vCover("rejected")
	}
}

// (b) the XML decoders on arbitrary bytes with one decoder option switched on
func H_C15_xml_opts() {
	vResetDecOpts()
	n := vP("bytes", 5, 6)
	in := []byte(vNondetString(0, n, "<>/a=\" x"))
	ref := refXmlFirstDoc(in)
	o := vDecOpts{attrPrefix: "-"}
	opt := vChoose(8)
	switch opt {
	case 0:
		o.simpleAsMap = true
	case 1:
		o.seq = true
	case 2:
		o.lower, o.snake = true, true
	case 3:
		o.keepSpaces = true
	case 4:
		o.escape = true
	case 5:
		o.attrPrefix = ""
	case 6:
		o.simpleAsMap, o.seq = true, true
	}
	vSetDecOpts(o)
	if opt == 7 {
		HandleXMPPStreamTag(true)
	}
	cast := vChoose(2) == 1
	seq := vChoose(2) == 1
	var m map[string]interface{}
	var err error
	panicked := vCatch(func() {
		if seq {
			var ms MapSeq
			ms, err = NewMapXmlSeq(in, cast)
			m = ms
		} else {
			var mm Map
			mm, err = NewMapXml(in, cast)
			m = mm
		}
	})
	HandleXMPPStreamTag(false)
	vResetDecOpts()
	vAssert(!panicked, "xml opts: decoders never panic on arbitrary input, whatever decoder option is set")
	if err != nil {
		vCover("rejected")
	} else {
		vCover("accepted")
	}
	if !seq && opt != 7 {
		vAssert((err == nil) == (ref == 1), "xml opts: decoding fails exactly when the standard tokenizer rejects the first document, whatever decoder option is set")
		if err != nil {
			vAssert(m == nil, "xml opts: an error comes with no partial Map")
		}
	}
}

// every MapSeq / Map produced with the cast flag can be passed to the encoders: comments,
// instructions, directives, attributes and text that look like numbers or booleans
func H_C15_seq_cast() {
	vResetDecOpts()
	t := []string{"1", "true", "x", "2.5", ""}[vChoose(5)]
	var piece string
	textBesideItems := false // text next to a comment or element inside one element (known finding for the sequence encoder)
	switch vChoose(7) {
	case 6: // text that a comment splits in two, in an element without attributes
		piece = "<b>12<!--c-->" + t + "</b>"
		textBesideItems = true
	case 0:
		piece = "<!--" + t + "-->"
	case 1:
		piece = "<?p " + t + "?>"
	case 2:
		piece = "<!D " + t + ">"
	case 3:
		piece = "<b n=\"" + t + "\">" + t + "</b>"
	case 4:
		piece = t + "<b/>"
	default:
		piece = "<b>" + t + "</b><b>" + t + "</b>"
	}
	doc := []byte("<a p:q=\"" + t + "\">" + piece + "</a>")
	CastValuesToInt(vChoose(2) == 1)
	seq := vChoose(2) == 1
	var mixedSeq bool
	_ = textBesideItems
	panicked := vCatch(func() {
		if seq {
			ms, err := NewMapXmlSeq(doc, true)
			if err == nil {
				if _, isStr := ms["a"].(map[string]interface{})["#text"]; isStr || textBesideItems {
					mixedSeq = true
				}
				_, _ = ms.Xml()
				_, _ = ms.XmlIndent("", " ")
				_, _ = Map(ms).Json()
			}
		} else {
			m, err := NewMapXml(doc, true)
			if err == nil {
				_, _ = m.Xml()
				_, _ = m.XmlIndent("", " ")
				_, _ = m.Json()
			}
		}
	})
	CastValuesToInt(false)
	if panicked && mixedSeq && vKnown("C04-text-beside-children") {
		vKnownHit("C04-text-beside-children")
		return
	}
	vAssert(!panicked, "cast encode: every Map or MapSeq decoded with the cast flag can be passed to the encoders without a panic")
	vCover("castenc")
}
