package mxj

import "strings"

func init() {
	vHarnesses["H_C11_rename"] = H_C11_rename
}

var vSpecC11 = vSpec{Depth: 3, Width: 2, Kinds: "mlsn", KeyAlpha: "ab", KeyMin: 1, KeyMax: 1, StrAlpha: "xy", StrMax: 1, NoEmptyList: true}

// refParentC11: Appendix A.6 — the parent of a dot path, walking maps only.
func refParentC11(m map[string]interface{}, segs []string) (map[string]interface{}, bool) {
	parent := m
	for i := 0; i < len(segs)-1; i++ {
		v, has := parent[segs[i]]
		if !has {
			return nil, false
		}
		pm, isMap := v.(map[string]interface{})
		if !isMap {
			return nil, false
		}
		parent = pm
	}
	return parent, true
}

func H_C11_rename() {
	m := vNondetMap(vSpecC11)
	nseg := 1 + vChoose(3)
	segs := make([]string, nseg)
	for i := range segs {
		segs[i] = vNondetString(1, 1, "abc")
	}
	path := strings.Join(segs, ".")
	name := vNondetString(1, 1, "abc")
	last := segs[nseg-1]

	parent, ok := refParentC11(m, segs)
	exists := false
	var oldVal interface{}
	if ok {
		oldVal, exists = parent[last]
	}
	sibling := false
	if ok {
		_, sibling = parent[name]
	}
	mark := vMark(m)
	err := Map(m).RenameKey(path, name)
	if !ok || !exists || sibling {
		vCover("refuse")
		if err == nil {
			// a path that resolves only through a list is refused as well; anything
			// that is not applied must leave the Map alone
			vAssert(false, "rename: refuses when the path is missing or the sibling exists")
		}
		vAssertUnchangedSince(mark, "rename: refused rename leaves the Map untouched")
		return
	}
	vCover("apply")
	vAssert(err == nil, "rename: applies to an existing key")
	nv, has := parent[name]
	vAssert(has, "rename: new key present")
	vAssert(vSame(nv, oldVal), "rename: value moved unchanged")
	_, still := parent[last]
	vAssert(!still, "rename: old key gone")
	vAssertUnchangedSince(mark, "rename: nothing else changed", vEntry(parent, last), vEntry(parent, name))
}
