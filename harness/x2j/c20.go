package x2j

import (
	"bytes"

	. "github.com/clbanning/mxj/v2"
)

func init() {
	vHarnesses["H_C20_x2j"] = H_C20_x2j
}

func vSameStrs(a, b []string) bool {
	if len(a) != len(b) {
		return false
	}
	used := make([]bool, len(b))
	for _, x := range a {
		ok := false
		for j, y := range b {
			if !used[j] && x == y {
				used[j], ok = true, true
				break
			}
		}
		if !ok {
			return false
		}
	}
	return true
}

// every x2j function returns what the documented composition of core functions returns
func H_C20_x2j() {
	k := vNondetString(1, 1, "ab")
	v := vNondetString(1, 1, "xy")
	x := []byte("<r " + k + "=\"1\">\n <" + k + ">" + v + "</" + k + "><b>1</b> <b>2</b><c><" + k + ">z</" + k + "></c><z></z></r>")
	core, cerr := NewMapXml(x)
	vAssert(cerr == nil, "x2j: the input decodes")
	key := vNondetString(1, 1, "abcq")
	safe := vChoose(2) == 1
	switch vChoose(11) {
	case 0:
		m, err := XmlToMap(x)
		vAssert(err == nil && vDeepEq(m, map[string]interface{}(core)), "x2j: XmlToMap equals NewMapXml")
		got, _ := MapToXml(m)
		want, _ := core.Xml()
		vAssert(string(got) == string(want), "x2j: MapToXml equals Map.Xml")
	case 1:
		got, err := XmlToJson(x, safe)
		want, _ := core.Json(safe)
		vAssert(err == nil && string(got) == string(want), "x2j: XmlToJson equals NewMapXml then Json with the same flag")
		w := &vWriter{}
		raw, err2 := XmlToJsonWriter(x, w, safe)
		vAssert(err2 == nil && string(raw) == string(want) && string(w.buf) == string(want), "x2j: XmlToJsonWriter writes and returns the same JSON")
	case 2:
		xraw, j, err := XmlReaderToJson(bytes.NewReader(x), safe)
		want, _ := core.Json(safe)
		vAssert(err == nil && string(j) == string(want) && string(xraw) == string(x), "x2j: XmlReaderToJson equals NewMapXmlReaderRaw then Json")
		w := &vWriter{}
		_, jr, err2 := XmlReaderToJsonWriter(bytes.NewReader(x), w, safe)
		vAssert(err2 == nil && string(jr) == string(want) && string(w.buf) == string(want), "x2j: XmlReaderToJsonWriter writes and returns the same JSON")
	case 3:
		got, err := XmlPathsForTag(x, key)
		want := core.PathsForKey(key)
		if len(want) == 0 {
			vAssert(len(got) == 0, "x2j: XmlPathsForTag of an absent tag yields no paths")
		} else {
			vAssert(err == nil && vSameStrs(got, want), "x2j: XmlPathsForTag equals Map.PathsForKey")
		}
		gs, _ := XmlPathForTagShortest(x, key)
		vAssert(gs == core.PathForKeyShortest(key), "x2j: XmlPathForTagShortest equals Map.PathForKeyShortest")
	case 4:
		got, err := XmlValuesForTag(x, key)
		want, _ := core.ValuesForKey(key)
		vAssert(err == nil && len(got) == len(want), "x2j: XmlValuesForTag returns as many values as Map.ValuesForKey")
		vAssert(vSameMultisetDeep(got, want), "x2j: XmlValuesForTag equals Map.ValuesForKey")
	case 5:
		p := "r." + key
		got, err := XmlValuesForPath(x, p)
		want, _ := core.ValuesForPath(p)
		vAssert(err == nil && len(got) == len(want), "x2j: XmlValuesForPath returns as many values as Map.ValuesForPath")
		vAssert(vSameMultisetDeep(got, want), "x2j: XmlValuesForPath equals Map.ValuesForPath")
	case 6:
		up := []string{"r.", "nope.", "r.c."}[vChoose(3)] + key
		got, err := XmlUpdateValsForPath(x, key+":N", up)
		c2, _ := NewMapXml(x)
		c2.UpdateValuesForPath(key+":N", up)
		want, _ := c2.Xml()
		vAssert(err == nil && string(got) == string(want), "x2j: XmlUpdateValsForPath equals UpdateValuesForPath then Xml")
	case 7:
		got, err := XmlNewXml(x, "r."+key+":n")
		n, _ := core.NewMap("r." + key + ":n")
		want, _ := n.Xml()
		vAssert(err == nil && string(got) == string(want), "x2j: XmlNewXml equals NewMap then Xml")
	case 8:
		got, err := XmlNewJson(x, "r."+key+":n")
		n, _ := core.NewMap("r." + key + ":n")
		want, _ := n.Json()
		vAssert(err == nil && string(got) == string(want), "x2j: XmlNewJson equals NewMap then Json")
	case 9:
		got, err := XmlLeafNodes(x)
		vAssert(err == nil && len(got) == len(core.LeafNodes()), "x2j: XmlLeafNodes returns as many leaves as Map.LeafNodes")
		gp, _ := XmlLeafPath(x)
		vAssert(vSameStrs(gp, core.LeafPaths()), "x2j: XmlLeafPath equals Map.LeafPaths")
	default:
		got, err := XmlLeafValues(x)
		vAssert(err == nil && len(got) == len(core.LeafValues()), "x2j: XmlLeafValues returns as many values as Map.LeafValues")
	}
	vCover("x2j")
}
