package main

import (
	"fmt"
	"go/types"
	"strings"

	"golang.org/x/tools/go/ssa"
)

type Value interface{}

// Str is a Go string or the contents of a []byte: a sequence of byte terms of concrete length.
type Str struct{ B []*Term }

// Arr is a backing array for slices.
type Arr struct {
	E      []Value
	Serial int
}

type Slice struct {
	A             *Arr
	Off, Len, Cap int
}

type MapEntry struct {
	K Value
	V Value
}

type MapObj struct {
	Entries []*MapEntry
	Serial  int
	T       types.Type
	Lazy    *Lazy // non-nil while the size of a lazy map is undecided
}

// Iface is an interface value; T == nil means nil interface.
type Iface struct {
	T types.Type
	V Value
}

type Ptr struct {
	C     *Value
	Owner *Arr // backing array if this points to a slice element
	Idx   int
	Name  string // for globals
}

type StructV []Value
type ArrayV []Value
type Tuple []Value

type Closure struct {
	Fn  *ssa.Function
	Env []Value
}

// Builtin function value
type BuiltinV struct{ B *ssa.Builtin }

// map iterator
type MapIter struct {
	M      *MapObj
	Order  []*MapEntry
	Pos    int
	IsStr  bool
	S      Str
	SPos   int
	Remain []*MapEntry
}

func (s Str) Len() int { return len(s.B) }

func (s Str) Concrete() (string, bool) {
	bs := make([]byte, len(s.B))
	for i, t := range s.B {
		if !t.IsConst() {
			return "", false
		}
		bs[i] = byte(t.C)
	}
	return string(bs), true
}

func (ts *TermStore) StrOf(s string) Str {
	b := make([]*Term, len(s))
	for i := 0; i < len(s); i++ {
		b[i] = ts.BV(8, uint64(s[i]))
	}
	return Str{b}
}

func (ts *TermStore) StrEq(a, b Str) *Term {
	if len(a.B) != len(b.B) {
		return ts.tFals
	}
	r := ts.tTrue
	for i := range a.B {
		r = ts.And(r, ts.Eq(a.B[i], b.B[i]))
		if r.IsFalse() {
			return r
		}
	}
	return r
}

// StrLt: lexicographic a < b (bytewise unsigned), as a Bool term.
func (ts *TermStore) StrLt(a, b Str) *Term {
	// build from the end: lt_i = a[i]<b[i] || (a[i]==b[i] && lt_{i+1})
	n := len(a.B)
	if len(b.B) < n {
		n = len(b.B)
	}
	var r *Term
	if len(a.B) < len(b.B) {
		r = ts.tTrue
	} else {
		r = ts.tFals
	}
	for i := n - 1; i >= 0; i-- {
		lt := ts.Cmp(OULt, a.B[i], b.B[i])
		eq := ts.Eq(a.B[i], b.B[i])
		r = ts.Or(lt, ts.And(eq, r))
	}
	return r
}

func (x *Exec) newArr(n int) *Arr {
	x.serial++
	return &Arr{E: make([]Value, n), Serial: x.serial}
}

func (x *Exec) newMap(t types.Type) *MapObj {
	x.serial++
	return &MapObj{Serial: x.serial, T: t}
}

func bvWidthOf(b *types.Basic) (w int, signed bool, ok bool) {
	switch b.Kind() {
	case types.Int, types.Int64, types.UntypedInt:
		return 64, true, true
	case types.Uint, types.Uint64, types.Uintptr:
		return 64, false, true
	case types.Int32, types.UntypedRune:
		return 32, true, true
	case types.Uint32:
		return 32, false, true
	case types.Int16:
		return 16, true, true
	case types.Uint16:
		return 16, false, true
	case types.Int8:
		return 8, true, true
	case types.Uint8:
		return 8, false, true
	}
	return 0, false, false
}

func isFloat(t types.Type) bool {
	b, ok := t.Underlying().(*types.Basic)
	return ok && (b.Kind() == types.Float64 || b.Kind() == types.Float32 || b.Kind() == types.UntypedFloat)
}

func isString(t types.Type) bool {
	b, ok := t.Underlying().(*types.Basic)
	return ok && (b.Kind() == types.String || b.Kind() == types.UntypedString)
}

func isBool(t types.Type) bool {
	b, ok := t.Underlying().(*types.Basic)
	return ok && (b.Kind() == types.Bool || b.Kind() == types.UntypedBool)
}

func intInfo(t types.Type) (w int, signed bool, ok bool) {
	b, isb := t.Underlying().(*types.Basic)
	if !isb {
		return 0, false, false
	}
	return bvWidthOf(b)
}

func (x *Exec) zero(t types.Type) Value {
	ts := x.ts
	switch u := t.Underlying().(type) {
	case *types.Basic:
		switch {
		case u.Kind() == types.Bool || u.Kind() == types.UntypedBool:
			return ts.tFals
		case u.Kind() == types.String || u.Kind() == types.UntypedString:
			return Str{}
		case u.Kind() == types.Float64 || u.Kind() == types.Float32 || u.Kind() == types.UntypedFloat:
			return ts.FP(0)
		case u.Kind() == types.UnsafePointer:
			return Ptr{}
		case u.Kind() == types.UntypedNil:
			return nil
		}
		if w, _, ok := bvWidthOf(u); ok {
			return ts.BV(w, 0)
		}
		x.unsupported("zero of basic " + u.String())
	case *types.Pointer:
		return Ptr{}
	case *types.Slice:
		return Slice{}
	case *types.Map:
		return (*MapObj)(nil)
	case *types.Interface:
		return Iface{}
	case *types.Signature:
		return (*Closure)(nil)
	case *types.Struct:
		s := make(StructV, u.NumFields())
		for i := range s {
			s[i] = x.zero(u.Field(i).Type())
		}
		return s
	case *types.Array:
		a := make(ArrayV, u.Len())
		for i := range a {
			a[i] = x.zero(u.Elem())
		}
		return a
	case *types.Chan:
		return nil
	case *types.Tuple:
		tv := make(Tuple, u.Len())
		for i := range tv {
			tv[i] = x.zero(u.At(i).Type())
		}
		return tv
	}
	x.unsupported("zero of " + t.String())
	return nil
}

// copyVal copies value types (structs and arrays) deeply; others are shared.
func copyVal(v Value) Value {
	switch v := v.(type) {
	case StructV:
		n := make(StructV, len(v))
		for i, f := range v {
			n[i] = copyVal(f)
		}
		return n
	case ArrayV:
		n := make(ArrayV, len(v))
		for i, f := range v {
			n[i] = copyVal(f)
		}
		return n
	}
	return v
}

// storeInto writes v into the cell, preserving aliasing of struct/array sub-cells.
func storeInto(c *Value, v Value) {
	switch nv := v.(type) {
	case StructV:
		if old, ok := (*c).(StructV); ok && len(old) == len(nv) {
			for i := range nv {
				storeInto(&old[i], nv[i])
			}
			return
		}
		*c = copyVal(v)
	case ArrayV:
		if old, ok := (*c).(ArrayV); ok && len(old) == len(nv) {
			for i := range nv {
				storeInto(&old[i], nv[i])
			}
			return
		}
		*c = copyVal(v)
	default:
		*c = v
	}
}

func typeStr(t types.Type) string {
	if t == nil {
		return "<nil>"
	}
	return types.TypeString(t, func(p *types.Package) string { return p.Name() })
}

// describe renders a value for diagnostics (concrete parts shown, symbolic as ?).
func (x *Exec) describe(v Value, depth int) string {
	if depth > 4 {
		return "…"
	}
	switch v := v.(type) {
	case nil:
		return "nil"
	case *Term:
		if v.IsConst() {
			if v.S.K == KBool {
				return fmt.Sprint(v.C == 1)
			}
			return fmt.Sprint(v.SVal())
		}
		return "?" + v.S.smt()
	case Str:
		var sb strings.Builder
		sb.WriteByte('"')
		for _, b := range v.B {
			if b.IsConst() {
				sb.WriteString(strings.Trim(fmt.Sprintf("%q", string(rune(b.C))), "\""))
			} else {
				sb.WriteByte('?')
			}
		}
		sb.WriteByte('"')
		return sb.String()
	case Iface:
		if v.T == nil {
			return "nil"
		}
		return typeStr(v.T) + ":" + x.describe(v.V, depth+1)
	case *Lazy:
		if v.Res != nil {
			return x.describe(*v.Res, depth)
		}
		return fmt.Sprintf("lazy#%d", v.ID)
	case *MapObj:
		if v == nil {
			return "map(nil)"
		}
		var sb strings.Builder
		sb.WriteString("map{")
		if v.Lazy != nil {
			sb.WriteString("lazy-size")
		}
		for i, e := range v.Entries {
			if i > 0 {
				sb.WriteString(", ")
			}
			sb.WriteString(x.describe(e.K, depth+1) + ":" + x.describe(e.V, depth+1))
		}
		sb.WriteString("}")
		return sb.String()
	case Slice:
		if v.A == nil {
			return "[]nil"
		}
		var sb strings.Builder
		sb.WriteString("[")
		for i := 0; i < v.Len; i++ {
			if i > 0 {
				sb.WriteString(", ")
			}
			sb.WriteString(x.describe(v.A.E[v.Off+i], depth+1))
		}
		sb.WriteString("]")
		return sb.String()
	case Ptr:
		if v.C == nil {
			return "nilptr"
		}
		return "&" + x.describe(*v.C, depth+1)
	case StructV:
		var sb strings.Builder
		sb.WriteString("{")
		for i, f := range v {
			if i > 0 {
				sb.WriteString(", ")
			}
			sb.WriteString(x.describe(f, depth+1))
		}
		sb.WriteString("}")
		return sb.String()
	case ArrayV:
		return x.describe(Slice{A: &Arr{E: v}, Len: len(v)}, depth)
	case *Closure:
		if v == nil {
			return "func(nil)"
		}
		return "func " + v.Fn.String()
	case Tuple:
		return x.describe(StructV(v), depth)
	}
	return fmt.Sprintf("%T", v)
}
