package main

import (
	"math/rand"
	"fmt"
	"go/types"
	"os"
	"path/filepath"
	"sort"
	"strings"
	"sync"
	"time"

	"golang.org/x/tools/go/packages"
	"golang.org/x/tools/go/ssa"
	"golang.org/x/tools/go/ssa/ssautil"
)

type Engine struct {
	prog        *ssa.Program
	repo        string
	harnessDir  string
	harnessPkgs map[string]bool
	harnessSSA  []*ssa.Package
	ssaByPath   map[string]*ssa.Package
	overlay     map[string]string // virtual -> real

	errorType       types.Type
	errorStringType types.Type
	mapType         types.Type
	listType        types.Type
	stringType      types.Type
	float64Type     types.Type
	boolType        types.Type
	intType         types.Type

	known   map[string]bool
	tier    string
	params  map[string]int // size parameters of the harness being run (vParam)
	estimate int // > 0: number of random probes; no exhaustive exploration
	paramMu sync.Mutex
	paramSeen map[string][2]int // name -> (value used, default of this tier)
	workers int

	fnInfos sync.Map
	modelGlobalNames map[string]bool
	pmMu    sync.Mutex
	pmCache map[*ssa.Function]*ssa.Function

	solverArgv []string
	samples    int
	seed       int
	dumpDir    string
	loadNotes  []string
}

// pkgDirs: repo-relative package dirs to load (".", "x2j-wrapper", ...)
func LoadEngine(repo, harnessDir string, pkgDirs []string) (*Engine, error) {
	e := &Engine{repo: repo, harnessDir: harnessDir, harnessPkgs: map[string]bool{}, ssaByPath: map[string]*ssa.Package{},
		overlay: map[string]string{}, pmCache: map[*ssa.Function]*ssa.Function{}, known: map[string]bool{}}
	ov := map[string][]byte{}
	var patterns []string
	for _, d := range pkgDirs {
		sub := d
		if d == "." {
			sub = "mxj"
		}
		files, _ := filepath.Glob(filepath.Join(harnessDir, sub, "*.go"))
		sort.Strings(files)
		for _, f := range files {
			if strings.HasSuffix(f, "_test.go") {
				continue
			}
			b, err := os.ReadFile(f)
			if err != nil {
				return nil, err
			}
			virt := filepath.Join(repo, d, "zz_verif_"+filepath.Base(f))
			ov[virt] = b
			e.overlay[virt] = f
		}
		// shared prelude: harness/common/*.go is injected into every package with the
		// package clause rewritten
		common, _ := filepath.Glob(filepath.Join(harnessDir, "common", "*.go"))
		sort.Strings(common)
		for _, f := range common {
			if strings.HasSuffix(f, "_test.go") {
				continue
			}
			b, err := os.ReadFile(f)
			if err != nil {
				return nil, err
			}
			virt := filepath.Join(repo, d, "zz_verif_common_"+filepath.Base(f))
			ov[virt] = rewritePackageClause(b, pkgNameFor(d))
			e.overlay[virt] = f
		}
		if d == "." {
			patterns = append(patterns, ".")
		} else {
			patterns = append(patterns, "./"+d)
		}
	}
	cfg := &packages.Config{Mode: packages.LoadAllSyntax, Dir: repo, Overlay: ov,
		Env: append(os.Environ(), "GOFLAGS=-mod=mod", "GOPROXY=off", "GOSUMDB=off", "GOTOOLCHAIN=local")}
	pkgs, err := packages.Load(cfg, patterns...)
	if err != nil {
		return nil, err
	}
	countErrs := func(report bool) (int, bool) {
		n, optional := 0, false
		for _, p := range pkgs {
			for _, pe := range p.Errors {
				if report {
					fmt.Fprintf(os.Stderr, "load error: %v\n", pe)
				}
				if strings.Contains(pe.Pos, "_state.go") {
					optional = true
				}
				n++
			}
		}
		return n, optional
	}
	nerr, inOptional := countErrs(false)
	if nerr > 0 && inOptional {
		// harness files named *_state.go name unexported identifiers of the code under
		// test; if a changed tree no longer has them, drop those files and go on with
		// the harnesses that use the exported API only
		for virt := range ov {
			if strings.HasSuffix(virt, "_state.go") {
				delete(ov, virt)
				delete(e.overlay, virt)
				e.loadNotes = append(e.loadNotes, "dropped "+filepath.Base(virt)+": it no longer type-checks against the tree (unexported names changed); its harnesses are skipped")
			}
		}
		cfg.Overlay = ov
		pkgs, err = packages.Load(cfg, patterns...)
		if err != nil {
			return nil, err
		}
		nerr, _ = countErrs(true)
	} else if nerr > 0 {
		countErrs(true)
	}
	if nerr > 0 {
		return nil, fmt.Errorf("%d package load errors", nerr)
	}
	prog, spkgs := ssautil.AllPackages(pkgs, ssa.InstantiateGenerics)
	prog.Build()
	e.prog = prog
	for _, sp := range spkgs {
		if sp == nil {
			continue
		}
		e.harnessPkgs[sp.Pkg.Path()] = true
		e.harnessSSA = append(e.harnessSSA, sp)
	}
	for _, sp := range prog.AllPackages() {
		e.ssaByPath[sp.Pkg.Path()] = sp
	}
	e.modelGlobalNames = map[string]bool{}
	for _, sp := range e.harnessSSA {
		for _, mem := range sp.Members {
			if g, ok := mem.(*ssa.Global); ok {
				pos := prog.Fset.Position(g.Pos())
				if strings.Contains(filepath.Base(pos.Filename), "zz_verif_") {
					e.modelGlobalNames[sp.Pkg.Path()+"."+g.Name()] = true
				}
			}
		}
	}
	e.errorType = types.Universe.Lookup("error").Type()
	if ep := e.ssaByPath["errors"]; ep != nil {
		e.errorStringType = ep.Type("errorString").Type()
	}
	iface := types.NewInterfaceType(nil, nil)
	iface.Complete()
	e.mapType = types.NewMap(types.Typ[types.String], iface)
	e.listType = types.NewSlice(iface)
	e.stringType = types.Typ[types.String]
	e.float64Type = types.Typ[types.Float64]
	e.boolType = types.Typ[types.Bool]
	e.intType = types.Typ[types.Int]
	return e, nil
}

func pkgNameFor(d string) string {
	switch d {
	case ".":
		return "mxj"
	case "x2j-wrapper":
		return "x2j"
	}
	return filepath.Base(d)
}

func rewritePackageClause(src []byte, name string) []byte {
	lines := strings.SplitN(string(src), "\n", -1)
	for i, l := range lines {
		if strings.HasPrefix(l, "package ") {
			lines[i] = "package " + name
			break
		}
	}
	return []byte(strings.Join(lines, "\n"))
}

// ---- harness runs ----

type HarnessRun struct {
	Name      string
	Pkg       *ssa.Package
	Fn        *ssa.Function
	mu        sync.Mutex
	Paths     int
	Completed int
	Pruned    int
	Infeas    int
	Panics    int
	Decisions int
	Steps     int64
	Unknowns  int
	Unsupp    map[string]int
	Limits    map[string]int
	Covers    map[string]int
	Params    map[string]int
	EstSum, EstSq float64
	estSeed   int64
	Asserts   map[string]int
	Known     map[string]int
	Viol      []*Violation
	stop      bool
	Funcs     map[string]int
	Samples   []string
	Wall      time.Duration
	Solver    SolverStats
	MaxPaths  int
	Truncated bool
	SampleTapes [][]interface{} // models of completed paths, for translator validation
	sampleSeen  int
}

// wantSample: reservoir-free spread - take the 1st, 2nd, 4th, 8th ... completed path
// (shifted by the seed) until the quota is reached.
func (h *HarnessRun) wantSample(quota, seed int) bool {
	h.mu.Lock()
	defer h.mu.Unlock()
	h.sampleSeen++
	if len(h.SampleTapes) >= quota {
		return false
	}
	n := h.sampleSeen + seed%7
	return n&(n-1) == 0 || n%977 == 0
}

func (h *HarnessRun) noteAssert(label string) {
	h.mu.Lock()
	h.Asserts[label]++
	h.mu.Unlock()
}
func (h *HarnessRun) noteKnown(id string) {
	h.mu.Lock()
	h.Known[id]++
	h.mu.Unlock()
}
func (h *HarnessRun) addViolation(v *Violation) {
	h.mu.Lock()
	h.Viol = append(h.Viol, v)
	if len(h.Viol) >= 4 {
		h.stop = true
	}
	h.mu.Unlock()
}

type Worker struct {
	id         int
	ts         *TermStore
	sol        *Solver
	stdGlobals map[*ssa.Global]*Value
	stdInit    map[string]bool
	consts     map[*ssa.Const]Value
	envPool    map[*fnInfo][][]Value
}

// isModelGlobal: package-level variables declared in the injected harness files.
func (e *Engine) isModelGlobal(g *ssa.Global) bool {
	return e.modelGlobalNames[g.Pkg.Pkg.Path()+"."+g.Name()]
}

func (e *Engine) findHarness(name string) (*ssa.Package, *ssa.Function) {
	for _, sp := range e.harnessSSA {
		if f := sp.Func(name); f != nil {
			return sp, f
		}
	}
	return nil, nil
}

func (e *Engine) RunHarness(name string, maxPaths int, timeout time.Duration) *HarnessRun {
	h := &HarnessRun{Name: name, Unsupp: map[string]int{}, Limits: map[string]int{}, Covers: map[string]int{},
		Asserts: map[string]int{}, Known: map[string]int{}, Funcs: map[string]int{}, MaxPaths: maxPaths}
	h.Solver.ByKind = map[string]int{}
	sp, fn := e.findHarness(name)
	if fn == nil {
		h.Unsupp["harness function not found: "+name]++
		return h
	}
	h.Pkg, h.Fn = sp, fn
	t0 := time.Now()
	deadline := t0.Add(timeout)

	var mu sync.Mutex
	cond := sync.NewCond(&mu)
	queue := [][]int{{}}
	if e.estimate > 0 {
		queue = make([][]int, e.estimate)
		for i := range queue {
			queue[i] = []int{}
		}
	}
	active := 0
	var wg sync.WaitGroup
	for i := 0; i < e.workers; i++ {
		wg.Add(1)
		go func(id int) {
			defer wg.Done()
			sol, err := NewSolver(e.solverArgv)
			if err != nil {
				h.mu.Lock()
				h.Unsupp["cannot start solver: "+err.Error()]++
				h.mu.Unlock()
				return
			}
			if e.dumpDir != "" {
				sol.dumpDir = filepath.Join(e.dumpDir, fmt.Sprintf("%s-w%d", name, id))
				os.MkdirAll(sol.dumpDir, 0o755)
				sol.dumpLimit = 40
			}
			defer sol.Close()
			w := &Worker{id: id, ts: NewTermStore(), sol: sol, stdGlobals: map[*ssa.Global]*Value{}, stdInit: map[string]bool{}, consts: map[*ssa.Const]Value{}, envPool: map[*fnInfo][][]Value{}}
			npaths := 0
			for {
				mu.Lock()
				for len(queue) == 0 && active > 0 {
					cond.Wait()
				}
				if len(queue) == 0 {
					mu.Unlock()
					cond.Broadcast()
					break
				}
				task := queue[len(queue)-1]
				queue = queue[:len(queue)-1]
				active++
				mu.Unlock()

				h.mu.Lock()
				stop := h.stop || (maxPaths > 0 && h.Paths >= maxPaths) || time.Now().After(deadline)
				if stop && !h.stop {
					h.Truncated = true
				}
				h.mu.Unlock()
				var nt [][]int
				if !stop {
					nt = e.execPath(w, h, task)
					npaths++
					if npaths%2000 == 0 {
						w.ts = NewTermStore()
						w.stdGlobals = map[*ssa.Global]*Value{}
						w.stdInit = map[string]bool{}
						w.consts = map[*ssa.Const]Value{}
						w.envPool = map[*fnInfo][][]Value{}
					}
				}
				mu.Lock()
				if stop {
					queue = nil
				} else {
					queue = append(queue, nt...)
				}
				active--
				mu.Unlock()
				cond.Broadcast()
			}
			h.mu.Lock()
			mergeStats(&h.Solver, &sol.stats)
			h.mu.Unlock()
		}(i)
	}
	wg.Wait()
	h.Wall = time.Since(t0)
	return h
}

func mergeStats(a, b *SolverStats) {
	a.Queries += b.Queries
	a.Sat += b.Sat
	a.Unsat += b.Unsat
	a.Unknown += b.Unknown
	a.Errors += b.Errors
	a.Time += b.Time
	a.Recorded += b.Recorded
	if b.MaxTime > a.MaxTime {
		a.MaxTime = b.MaxTime
	}
	for k, v := range b.ByKind {
		a.ByKind[k] += v
	}
}

func (e *Engine) execPath(w *Worker, h *HarnessRun, prefix []int) (newTasks [][]int) {
	x := &Exec{eng: e, w: w, ts: w.ts, sol: w.sol, h: h, prefix: prefix,
		globals: map[*ssa.Global]*Value{}, covers: map[string]bool{}, side: map[string]Value{}, funcs: map[*ssa.Function]int{}, lit: map[*Term]bool{}}
	w.sol.record = e.dumpDir != "" || os.Getenv("SYMGO_DUMP_UNKNOWN") != "" || os.Getenv("SYMGO_DUMP_SLOW") != ""
	w.sol.script = w.sol.script[:0]
	w.sol.Push()
	if e.estimate > 0 {
		h.mu.Lock()
		h.estSeed++
		seed := h.estSeed
		h.mu.Unlock()
		x.rng = rand.New(rand.NewSource(seed))
		x.estProd = 1
	}
	outcome := "completed"
	var msg string
	func() {
		defer func() {
			r := recover()
			if r == nil {
				return
			}
			switch sig := r.(type) {
			case abortSig:
				outcome, msg = sig.Kind, sig.Msg
			case *targetPanic:
				outcome, msg = "panic", sig.Msg+" @ "+sig.Site
				if x.expectPanic {
					outcome = "completed"
					return
				}
				func() {
					defer func() {
						if r2 := recover(); r2 != nil {
							if s2, ok := r2.(abortSig); ok && s2.Kind == "violation" {
								return
							}
							panic(r2)
						}
					}()
					x.violation("panic", "panic:"+sig.Site, sig.Msg, x.pcModel())
				}()
			default:
				// engine bug: report as unsupported with the message
				outcome, msg = "unsupported", fmt.Sprintf("engine panic: %v%s", r, x.where())
				if os.Getenv("SYMGO_DEBUG") != "" {
					panic(r)
				}
			}
		}()
		x.runInits()
		x.callFunction(h.Fn, nil, nil)
		// the completed path must be feasible: the solver confirms its path condition
		sat := true
		if len(x.pc) > 0 {
			switch x.sol.Check("path-feasible") {
			case "unsat":
				outcome = "infeasible"
				sat = false
			case "sat":
			default:
				x.unknowns++
				sat = false
			}
		}
		// translator validation: keep the model of a sample of completed paths; the
		// same inputs are later run natively and must pass there as well
		if sat && e.samples > 0 && h.wantSample(e.samples, e.seed) {
			var m map[string]uint64
			if len(x.pc) > 0 {
				m = x.sol.Values(x.ts, x.vars)
			}
			tape := x.dumpTape(m)
			h.mu.Lock()
			if len(h.SampleTapes) < e.samples {
				h.SampleTapes = append(h.SampleTapes, tape)
			}
			h.mu.Unlock()
		}
	}()
	w.sol.PopTo(0)
	h.mu.Lock()
	h.Paths++
	if e.estimate > 0 {
		h.EstSum += x.estProd
		h.EstSq += x.estProd * x.estProd
	}
	h.Decisions += x.decisions
	h.Steps += int64(x.steps)
	h.Unknowns += x.unknowns
	switch outcome {
	case "completed":
		h.Completed++
		for c := range x.covers {
			h.Covers[c]++
		}
		if len(h.Samples) < 3 {
			h.Samples = append(h.Samples, x.sampleDescr())
		}
	case "assume":
		h.Pruned++
	case "infeasible":
		h.Infeas++
	case "panic":
		h.Panics++
	case "violation":
		for c := range x.covers {
			h.Covers[c]++
		}
	case "unsupported":
		h.Unsupp[msg]++
	case "limit":
		h.Limits[msg]++
	}
	for f, n := range x.funcs {
		h.Funcs[x.eng.funcInfo(f).name] += n
	}
	h.mu.Unlock()
	return x.newTasks
}

func (x *Exec) runInits() {
	for _, sp := range x.eng.harnessSSA {
		if f := sp.Func("init"); f != nil {
			x.callFunction(f, nil, nil)
		}
	}
	x.writeLog = x.writeLog[:0]
}

func (x *Exec) sampleDescr() string {
	var parts []string
	for _, r := range x.tape {
		switch r.Kind {
		case "choose":
			parts = append(parts, fmt.Sprintf("choose=%d", r.N))
		case "str":
			parts = append(parts, "str="+x.describe(Str{r.Terms}, 0))
		case "value":
			parts = append(parts, "value="+x.describeLazy(r.Lazy, 0))
		default:
			parts = append(parts, r.Kind+"="+x.describe(r.Terms[0], 0))
		}
	}
	s := strings.Join(parts, " ")
	if len(s) > 400 {
		s = s[:400] + "…"
	}
	return fmt.Sprintf("path %v: %s", x.trail, s)
}

func (x *Exec) describeLazy(lz *Lazy, d int) string {
	if lz == nil || lz.Res == nil {
		return "_"
	}
	switch lz.Kind {
	case 'm':
		if !lz.SizeOK {
			return "map{…}"
		}
		var p []string
		for i, k := range lz.Keys {
			p = append(p, x.describe(k, 0)+":"+x.describeLazy(lz.Kids[i], d+1))
		}
		return "map{" + strings.Join(p, ",") + "}"
	case 'l':
		var p []string
		for _, k := range lz.Kids {
			p = append(p, x.describeLazy(k, d+1))
		}
		return "[" + strings.Join(p, ",") + "]"
	case 's':
		return x.describe(lz.S, 0)
	case 'f':
		return "float"
	case 'b':
		return "bool"
	case 'n':
		return "nil"
	case 'i':
		return "int"
	}
	return "?"
}

func (e *Engine) noteParam(name string, val, def int) {
	e.paramMu.Lock()
	if e.paramSeen == nil {
		e.paramSeen = map[string][2]int{}
	}
	e.paramSeen[name] = [2]int{val, def}
	e.paramMu.Unlock()
}
