package main

// In-memory file model for os.Stat / os.Open / os.Create and *os.File (per path).
// Reads deliver one chunk per call the way *os.File documents it: data with a nil error,
// (0, io.EOF) only once the data is exhausted.

import (
	"go/types"

	"golang.org/x/tools/go/ssa"
)

type FileV struct {
	Name string
	Pos  int
	Data *[]*Term
}

func (x *Exec) fsGet(name string) *[]*Term {
	if v, ok := x.side["fs:"+name]; ok {
		return v.(*[]*Term)
	}
	return nil
}

func (x *Exec) osError(what string) Value { return x.newError("os: " + what) }

func (x *Exec) ioEOF() Value {
	iop := x.eng.ssaByPath["io"]
	g := iop.Var("EOF")
	p := x.globalPtr(g).(Ptr)
	return *p.C
}

func init() {
	om := map[string]intrinsic{
		"os.Create": func(x *Exec, fr *frame, fn *ssa.Function, a []Value) Value {
			name := cstr(x, a[0], "file name")
			d := &[]*Term{}
			x.side["fs:"+name] = d
			c := new(Value)
			*c = FileV{Name: name, Data: d}
			return Tuple{Ptr{C: c}, Iface{}}
		},
		"os.OpenFile": func(x *Exec, fr *frame, fn *ssa.Function, a []Value) Value {
			name := cstr(x, a[0], "file name")
			flag := cint(x, a[1], "open flags")
			const oCreate, oTrunc, oAppend = 0x40, 0x200, 0x400
			d := x.fsGet(name)
			if d == nil {
				if flag&oCreate == 0 {
					return Tuple{Ptr{}, x.osError("open " + name + ": no such file")}
				}
				d = &[]*Term{}
				x.side["fs:"+name] = d
			}
			if flag&oTrunc != 0 {
				*d = (*d)[:0]
			}
			c := new(Value)
			f := FileV{Name: name, Data: d}
			if flag&oAppend != 0 {
				f.Pos = len(*d)
			}
			*c = f
			return Tuple{Ptr{C: c}, Iface{}}
		},
		"os.Open": func(x *Exec, fr *frame, fn *ssa.Function, a []Value) Value {
			name := cstr(x, a[0], "file name")
			d := x.fsGet(name)
			if d == nil {
				return Tuple{Ptr{}, x.osError("open " + name + ": no such file")}
			}
			c := new(Value)
			*c = FileV{Name: name, Data: d}
			return Tuple{Ptr{C: c}, Iface{}}
		},
		"os.Stat": func(x *Exec, fr *frame, fn *ssa.Function, a []Value) Value {
			name := cstr(x, a[0], "file name")
			d := x.fsGet(name)
			if d == nil {
				return Tuple{Iface{}, x.osError("stat " + name + ": no such file")}
			}
			osp := x.eng.ssaByPath["os"]
			fst := osp.Type("fileStat").Type()
			c := new(Value)
			sv := x.zero(fst).(StructV)
			sv[0] = x.ts.StrOf(name)
			sv[1] = x.ts.BV(64, uint64(len(*d)))
			*c = sv
			return Tuple{Iface{T: types.NewPointer(fst), V: Ptr{C: c}}, Iface{}}
		},
		"os.Remove": func(x *Exec, fr *frame, fn *ssa.Function, a []Value) Value {
			delete(x.side, "fs:"+cstr(x, a[0], "file name"))
			return Iface{}
		},
		"(*os.File).Close": func(x *Exec, fr *frame, fn *ssa.Function, a []Value) Value { return Iface{} },
		"(*os.File).WriteString": func(x *Exec, fr *frame, fn *ssa.Function, a []Value) Value {
			p := a[0].(Ptr)
			f := (*p.C).(FileV)
			s := a[1].(Str)
			f.Pos = fileWriteAt(f.Data, f.Pos, s.B)
			*p.C = f
			return Tuple{x.ts.BV(64, uint64(len(s.B))), Iface{}}
		},
		"(*os.File).Write": func(x *Exec, fr *frame, fn *ssa.Function, a []Value) Value {
			p := a[0].(Ptr)
			f := (*p.C).(FileV)
			b := bytesOf(a[1])
			f.Pos = fileWriteAt(f.Data, f.Pos, b)
			*p.C = f
			return Tuple{x.ts.BV(64, uint64(len(b))), Iface{}}
		},
		"(*os.File).Read": func(x *Exec, fr *frame, fn *ssa.Function, a []Value) Value {
			p := a[0].(Ptr)
			f := (*p.C).(FileV)
			dst := a[1].(Slice)
			if dst.Len == 0 {
				return Tuple{x.ts.BV(64, 0), Iface{}}
			}
			rem := len(*f.Data) - f.Pos
			if rem <= 0 {
				return Tuple{x.ts.BV(64, 0), x.ioEOF()}
			}
			n := dst.Len
			if n > rem {
				n = rem
			}
			for i := 0; i < n; i++ {
				dst.A.E[dst.Off+i] = (*f.Data)[f.Pos+i]
			}
			f.Pos += n
			*p.C = f
			return Tuple{x.ts.BV(64, uint64(n)), Iface{}}
		},
	}
	for k, v := range om {
		models[k] = v
	}
}

func fileWriteAt(d *[]*Term, pos int, b []*Term) int {
	for i, t := range b {
		if pos+i < len(*d) {
			(*d)[pos+i] = t
		} else {
			*d = append(*d, t)
		}
	}
	return pos + len(b)
}
