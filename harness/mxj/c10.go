package mxj

func init() {
	vHarnesses["H_C10_update"] = H_C10_update
	vHarnesses["H_C10_update_deep"] = H_C10_update_deep
	vHarnesses["H_C10_malformed"] = H_C10_malformed
	vHarnesses["H_C10_update_lists"] = H_C10_update_lists
	vHarnesses["H_C10_subkeys2"] = H_C10_subkeys2
}

type vAddr struct {
	m map[string]interface{}
	k string
}

type vListAddr struct {
	m   map[string]interface{}
	k   string
	old []interface{}
}

func vC10(spec vSpec, maxSteps int, withSub bool) {
	m := vNondetMap(spec)
	k := vNondetString(1, 1, "ab")
	var v interface{} = vNondetString(1, 1, "xN") // may coincide with a value that is already there
	var newVal interface{}
	switch vChoose(4) {
	case 0:
		newVal = map[string]interface{}{k: v}
	case 1:
		newVal = Map{k: v}
	case 2:
		newVal = k + ":" + v.(string)
	default:
		b := vChoose(2) == 1
		v = b
		if b {
			newVal = k + ":true:bool"
		} else {
			newVal = k + ":0:boolean"
		}
	}
	n := 1 + vChoose(maxSteps)
	steps, path, _ := vNondetSteps(n-1, "ab", true, -1)
	formA := vChoose(2) == 0
	last := k
	if !formA {
		last = vNondetString(1, 1, "ab") // a final wildcard is outside the encoded domain (DESIGN 0.13)
		vAssume(last != k)
	}
	if n > 1 {
		path += "."
	}
	path += last
	var conds []vCond
	var specs []string
	if withSub && vChoose(2) == 1 {
		s, c := vNondetCond(":")
		conds = append(conds, c)
		specs = append(specs, s)
		vCover("subkeys")
	}

	// reference: the addressed entries (Appendix A.5)
	var E []vAddr
	var lists []vListAddr
	F := refFrontier(steps, m)
	if formA {
		vCover("formA")
		for _, x := range F {
			if xm, ok := x.(map[string]interface{}); ok {
				_, has := xm[k]
				vAssume(has) // a directly addressed node lacking k: creation is not specified
			}
		}
		for _, x := range refMembers(F) {
			xm, ok := x.(map[string]interface{})
			if !ok {
				continue
			}
			cur, has := xm[k]
			if !has {
				continue
			}
			if len(conds) > 0 {
				if l, isList := cur.([]interface{}); isList {
					vAssume(!vAmbiguousPred([]interface{}{x}, conds))
					if !refPred(x, conds) {
						// the holding node fails the conditions: member-wise replacement of the
						// list is not specified; whatever happens, the count must equal the
						// number of values replaced
						lists = append(lists, vListAddr{xm, k, append([]interface{}{}, l...)})
						continue
					}
					// the holding node satisfies the conditions: its value under k is replaced
				}
				vAssume(!vAmbiguousPred([]interface{}{x}, conds))
				if !refPred(x, conds) {
					continue
				}
			}
			E = append(E, vAddr{xm, k})
		}
	} else {
		vCover("formB")
		var Fn []interface{}
		for _, x := range F {
			if last == "*" {
				Fn = append(Fn, refStepWild(x)...)
			} else {
				Fn = append(Fn, refStepKey(last, x)...)
			}
		}
		for _, x := range refMembers(Fn) {
			xm, ok := x.(map[string]interface{})
			if !ok {
				continue
			}
			if _, has := xm[k]; !has {
				continue
			}
			if len(conds) > 0 {
				vAssume(!vAmbiguousPred([]interface{}{x}, conds))
				if !refPred(x, conds) {
					continue
				}
			}
			E = append(E, vAddr{xm, k})
		}
	}

	mark := vMark(m)
	cnt, err := Map(m).UpdateValuesForPath(newVal, path, specs...)
	vAssert(err == nil, "update: well-formed arguments give no error")
	replacedInLists := 0
	var listRefs []vRef
	for _, la := range lists {
		cur := la.m[la.k]
		if nl, ok := cur.([]interface{}); ok && len(nl) == len(la.old) {
			for i := range nl {
				if !vSame(nl[i], la.old[i]) {
					vAssert(vSame(nl[i], v), "update: a replaced list member holds the new value")
					replacedInLists++
				}
			}
		} else {
			vAssert(vSame(cur, v), "update: a replaced list value holds the new value")
			replacedInLists++
		}
		listRefs = append(listRefs, vEntry(la.m, la.k))
		vCover("list-under-subkeys")
	}
	vAssert(cnt == len(E)+replacedInLists, "update: the count equals the number of values replaced")
	refs := make([]vRef, len(E))
	for i, e := range E {
		cur, has := e.m[e.k]
		vAssert(has && vSame(cur, v), "update: every addressed entry holds the new value")
		refs[i] = vEntry(e.m, e.k)
	}
	if len(E) == 0 {
		vCover("zero")
	} else {
		vCover("some")
	}
	refs = append(refs, listRefs...)
	vAssertUnchangedSince(mark, "update: every entry other than the addressed ones is exactly as it was", refs...)
	if formA && len(conds) == 0 {
		vs, verr := Map(m).ValuesForPath(path)
		vAssert(verr == nil, "update: ValuesForPath accepts the path afterwards")
		vAssert(len(vs) == cnt, "update: ValuesForPath(path) afterwards yields exactly count values")
		for _, x := range vs {
			vAssert(vSame(x, v), "update: ValuesForPath(path) afterwards yields copies of the new value")
		}
	}
}

func H_C10_update() {
	vC10(vSpec{Depth: vP("depth", 2, 3), Width: vP("width", 2, 2), Kinds: "mlsn", KeyAlpha: "ab", KeyMin: 1, KeyMax: 1, StrAlpha: "xy", StrMin: 1, StrMax: 1}, vP("steps", 2, 3), true)
}

func H_C10_update_deep() {
	d, s := vP("depth", 5, 6), vP("steps", 3, 4)
	vC10(vSpec{Depth: d, Width: 1, Kinds: "mlsn", KeyAlpha: "ab", KeyMin: 1, KeyMax: 1, StrAlpha: "xy", StrMin: 1, StrMax: 1}, s, false)
}

// lists of maps under the addressed key, with sub-keys that match members but not the parent
func H_C10_update_lists() {
	d := vP("depth", 4, 5)
	vC10(vSpec{Depth: d, Width: vP("width", 2, 2), MapWidth: 1, Kinds: "mls", KeyAlpha: []string{"a", "ab"}[vP("keys2", 1, 1)], KeyMin: 1, KeyMax: 1, StrAlpha: "xy", StrMin: 1, StrMax: 1}, 2, true)
}

// malformed new values are rejected with an error and without touching the Map
func H_C10_malformed() {
	m := vNondetMap(vSpec{Depth: 2, Width: 2, Kinds: "msn", KeyAlpha: "ab", KeyMin: 1, KeyMax: 1, StrAlpha: "xy", StrMin: 1, StrMax: 1})
	k := vNondetString(1, 1, "ab")
	var newVal interface{}
	switch vChoose(7) {
	case 0:
		newVal = k // no separator
	case 1:
		newVal = k + ":x:y:z" // too many fields
	case 2:
		newVal = k + ":x:" + vNondetString(1, 2, "xbo") // unknown type word (never "bool": too short)
	case 3:
		newVal = k + ":" + vNondetString(1, 1, "xy2") + ":bool" // not a boolean
	case 4:
		newVal = 42 // neither map nor string
	case 5:
		newVal = map[string]interface{}{"a": 1, "b": 2}
	default:
		newVal = Map{}
	}
	path := k
	if vChoose(2) == 1 {
		path = vNondetString(1, 1, "ab") + "." + k
	}
	mark := vMark(m)
	cnt, err := Map(m).UpdateValuesForPath(newVal, path)
	vAssert(err != nil, "update: malformed new value is an error")
	vAssert(cnt == 0, "update: malformed new value changes nothing (count)")
	vAssertUnchangedSince(mark, "update: malformed new value leaves the Map untouched")
	vCover("malformed")
}

// two sub-key conditions, one typed and one plain, in both argument orders: each condition
// is compared in its own type
func H_C10_subkeys2() {
	qv := []interface{}{2.0, "2", true}
	cv := []interface{}{"7", 7.0, "x"}
	n := 1 + vChoose(2)
	var l []interface{}
	for i := 0; i < n; i++ {
		l = append(l, map[string]interface{}{"q": qv[vChoose(3)], "c": cv[vChoose(3)], "k": "o"})
	}
	m := Map{"l": l}
	ti := vChoose(3)
	typed := []string{"q:2:num", "q:true:bool", "q:2:string"}[ti]
	pi := vChoose(2)
	plain := []string{"c:7", "c:x"}[pi]
	subs := []string{typed, plain}
	if vChoose(2) == 1 {
		subs = []string{plain, typed}
	}
	cnt, err := m.UpdateValuesForPath(map[string]interface{}{"k": "N"}, "l.k", subs...)
	vAssert(err == nil, "subkeys2: well-formed sub-keys are accepted")
	want := 0
	for _, mem := range l {
		mm := mem.(map[string]interface{})
		okq := false
		switch ti {
		case 0:
			f, isF := mm["q"].(float64)
			okq = isF && f == 2
		case 1:
			b, isB := mm["q"].(bool)
			okq = isB && b
		default:
			s, isS := mm["q"].(string)
			okq = isS && s == "2"
		}
		s, isS := mm["c"].(string)
		okc := isS && s == []string{"7", "x"}[pi]
		if okq && okc {
			want++
			vAssert(mm["k"] == "N", "subkeys2: a member that satisfies both conditions is updated")
		} else {
			vAssert(mm["k"] == "o", "subkeys2: a member that fails a condition is left alone")
		}
	}
	vAssert(cnt == want, "subkeys2: the count equals the number of values replaced")
	vCover("subkeys2")
}
