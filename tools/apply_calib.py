#!/usr/bin/env python3
# writes the calibrated thorough-tier parameters into checks.json; harnesses without a calibration
# result get their quick values (so that the thorough tier always completes)
import json,subprocess,re,sys,os
cal={}
for f in sys.argv[1:]:
    if os.path.exists(f): cal.update(json.load(open(f)))
c=json.load(open('/verif/checks.json'))
def quick_params(pk,h):
    o=subprocess.run(['/verif/bin/symgo','run','-pkgs',pk,'-tier','quick','-estimate','200','-timeout','60s','-h',h],capture_output=True,text=True).stdout
    m=re.search(r'params\(value/default\): (.*)',o); ps={}
    if m and m.group(1).strip():
        for kv in m.group(1).split(','):
            k,v=kv.split('='); ps[k]=int(v.split('/')[1])
    return ps
n=0
for pid in sorted(c):
    pk=','.join(c[pid]['pkgs'])
    for e in c[pid]['thorough']:
        h=e['h']
        r=cal.get(h)
        if r and r.get('status')=='ok' and r.get('params') is not None:
            e['params']=r['params']; e['calibrated']={'paths':r['paths'],'wall_s':r['wall']}
        else:
            e['params']=quick_params(pk,h); e['calibrated']=None
        n+=1
json.dump(c,open('/verif/checks.json','w'),indent=1)
print(n,'entries')
