#!/usr/bin/env python3
# regenerates MANIFEST.json from checks.json (claimed) and na.json (not applicable reasons)
import json,sys
props=[json.loads(l) for l in open('/verif/properties.jsonl')]
checks=json.load(open('/verif/checks.json'))
na=json.load(open('/verif/na.json'))
notes=json.load(open('/verif/level_notes.json')) if __import__('os').path.exists('/verif/level_notes.json') else {}
claimed=[p['id'] for p in props if p['id'] in checks]
m={
 "version":1,
 "setup_cmd":"cd /verif/engine && GOFLAGS=-mod=mod GOPROXY=off GOSUMDB=off GOTOOLCHAIN=local go build -o /verif/bin/symgo .",
 "hooks":{"guard":"verif","enable":"none needed: harnesses are injected with go/packages overlays (symbolic run) and go test -overlay (native replay); no file in /repo is created or changed by the machinery","baseline_off_cmd":"cd /repo && GOFLAGS=-mod=mod GOPROXY=off go test -vet=off -count=1 . ./j2x ./x2j-wrapper","source_commits":[],"add_only":True},
 "engines":[{"name":"symgo","path":"/verif/engine","serves_properties":claimed,"kind_free_text":"forking symbolic executor for go/ssa (x/tools v0.29.0) emitting SMT-LIB2 to z3 4.8.12 over a pipe (cvc5 and z3 5.1 re-discharge recorded obligation queries in thorough runs); models are replayed natively via go test -overlay"}],
 "checks":[],"not_applicable":[],
 "notes":"Every check is `/verif/check <id> <tier>`: it rebuilds the SSA of /repo's working tree, executes the property's harnesses symbolically, replays every counterexample against the real package, writes evidence/<id>.json, exits 0/1 (2 = inconclusive: unsupported construct, bound too small, solver unknown, unreproducible counterexample)."}
for p in props:
    i=p['id']
    if i in checks:
        m['checks'].append({
          "property_id":i,
          "quick_cmd":"/verif/check %s quick"%i,
          "thorough_cmd":"/verif/check %s thorough"%i,
          "evidence_file":"/verif/evidence/%s.json"%i,
          "replay_cmd_template":"/verif/check --replay {path}",
          "engine":"symgo",
          "level_claimed":{"category":"model_checking","text":"bounded symbolic execution of the real functions (go/ssa of the current tree): every path within the stated bounds is explored, path feasibility, assertions, panic and frame obligations are decided by z3 for all inputs of the path; counterexamples are replayed natively before being reported","design_ref":"DESIGN.md §7 "+i},
          "level_note":notes.get(i,"trusted: go/ssa, the symgo interpreter and term simplifier, z3, the byte-level stdlib models listed in the evidence, the reference function in the harness; bounds and exclusions are listed in the evidence file"),
          "technique":"solver-based bounded symbolic execution of go/ssa (SMT-LIB2, z3) with native counterexample replay"})
    else:
        m['not_applicable'].append({"property_id":i,"reason":na.get(i,"check not built yet in this session; not claimed")})
json.dump(m,open('/verif/MANIFEST.json','w'),indent=1)
print("claimed:",claimed)
