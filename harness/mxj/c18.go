package mxj

func init() {
	vHarnesses["H_C18_history"] = H_C18_history
	vHarnesses["H_C18_noninterference"] = H_C18_noninterference
	vHarnesses["H_C18_matrix"] = H_C18_matrix
}

// vRestoreDefaults: the documented way back to the defaults, public API only.
func vRestoreDefaults() {
	SetAttrPrefix("-")
	IncludeTagSeqNum(false)
	CoerceKeysToLower(false)
	DisableTrimWhiteSpace(false)
	CoerceKeysToSnakeCase(false)
	CastValuesToInt(false)
	HandleXMPPStreamTag(false)
	DecodeSimpleValuesAsMap(false)
	CastNanInf(false)
	CastValuesToFloat(true)
	CastValuesToBool(true)
	SetCheckTagToSkipFunc(nil)
	XmlDefaultEmptyElemSyntax()
	XmlCheckIsValid(false)
	XMLEscapeChars(false)
	XMLEscapeCharsDecoder(false)
	SetGlobalKeyMapPrefix("#")
	LeafUseDotNotation(false)
	SetFieldSeparator()
	SetArraySize(0)
	JsonUseNumber = false
}

const vNumSetters = 21

// vCallSetter calls setter i; form 0: explicit value b (or s), form 1: no argument.
func vCallSetter(i int, form int, b bool, s string) {
	switch i {
	case 0:
		SetAttrPrefix(s)
	case 1:
		PrependAttrWithHyphen(b)
	case 2:
		if form == 0 {
			IncludeTagSeqNum(b)
		} else {
			IncludeTagSeqNum()
		}
	case 3:
		if form == 0 {
			CoerceKeysToLower(b)
		} else {
			CoerceKeysToLower()
		}
	case 4:
		if form == 0 {
			DisableTrimWhiteSpace(b)
		} else {
			DisableTrimWhiteSpace()
		}
	case 5:
		if form == 0 {
			CoerceKeysToSnakeCase(b)
		} else {
			CoerceKeysToSnakeCase()
		}
	case 6:
		if form == 0 {
			CastValuesToInt(b)
		} else {
			CastValuesToInt()
		}
	case 7:
		if form == 0 {
			HandleXMPPStreamTag(b)
		} else {
			HandleXMPPStreamTag()
		}
	case 8:
		if form == 0 {
			DecodeSimpleValuesAsMap(b)
		} else {
			DecodeSimpleValuesAsMap()
		}
	case 9:
		if form == 0 {
			CastNanInf(b)
		} else {
			CastNanInf()
		}
	case 10:
		if form == 0 {
			CastValuesToFloat(b)
		} else {
			CastValuesToFloat()
		}
	case 11:
		if form == 0 {
			CastValuesToBool(b)
		} else {
			CastValuesToBool()
		}
	case 12:
		if b {
			SetCheckTagToSkipFunc(func(string) bool { return true }) // skip every tag
		} else {
			SetCheckTagToSkipFunc(nil)
		}
	case 13:
		if b {
			XmlGoEmptyElemSyntax()
		} else {
			XmlDefaultEmptyElemSyntax()
		}
	case 14:
		if form == 0 {
			XmlCheckIsValid(b)
		} else {
			XmlCheckIsValid()
		}
	case 15:
		if form == 0 {
			XMLEscapeChars(b)
		} else {
			XMLEscapeChars()
		}
	case 16:
		if form == 0 {
			XMLEscapeCharsDecoder(b)
		} else {
			XMLEscapeCharsDecoder()
		}
	case 17:
		SetGlobalKeyMapPrefix(s)
	case 18:
		if form == 0 {
			LeafUseDotNotation(b)
		} else {
			LeafUseDotNotation()
		}
	case 19:
		if form == 0 {
			SetFieldSeparator(s[:1])
		} else {
			SetFieldSeparator()
		}
	default:
		if b {
			SetArraySize(40)
		} else {
			SetArraySize(1)
		}
	}
}

func vProbe() (string, string, string) {
	m, err := NewMapXml([]byte("<R-x B=\"1\"><c> t &amp;</c><c/></R-x>"), true)
	if err != nil {
		return "err", "", ""
	}
	x, _ := m.Xml()
	ms, _ := NewMapXmlSeq([]byte("<r a=\"1\"><!--c--><b>x</b></r>"))
	sx, _ := ms.Xml()
	j, _ := m.Json()
	leaves := ""
	lm := Map{"a": map[string]interface{}{"-k": "1", "#text": "t", "l": []interface{}{"p"}}}
	lp := lm.LeafPaths(true)
	for i := 1; i < len(lp); i++ { // order of map iteration is not part of the behaviour
		for j := i; j > 0 && lp[j] < lp[j-1]; j-- {
			lp[j], lp[j-1] = lp[j-1], lp[j]
		}
	}
	for _, l := range lp {
		leaves += l + ";"
	}
	return string(x) + "|" + string(j), string(sx), leaves
}

// (c) bounded histories, public API only: after any sequence of option calls, restoring
// the defaults makes decode/encode/query behave exactly as in a fresh process
func H_C18_history() {
	vRestoreDefaults()
	f1, f2, f3 := vProbe()
	n := 1 + vChoose(vP("calls", 2, 3))
	for k := 0; k < n; k++ {
		i := vChoose(vNumSetters)
		form := vChoose(2)
		b := vChoose(2) == 1
		arg := "@"
		if !b {
			arg = ""
		}
		if i == 17 || i == 19 {
			arg = "_"
			if !b {
				arg = "|"
			}
		}
		if i == 17 && form == 1 {
			arg = []string{"a", "__", "", "t"}[vChoose(4)] // letters, long and empty prefixes
		}
		vCallSetter(i, form, b, arg)
		if k == 0 {
			vProbe() // operations in between must not disturb the option state
		}
	}
	vRestoreDefaults()
	g1, g2, g3 := vProbe()
	vAssert(g1 == f1, "options: Map decode/encode behave as in a fresh process after restoring the defaults")
	vAssert(g2 == f2, "options: the sequence codec behaves as in a fresh process after restoring the defaults")
	vAssert(g3 == f3, "options: LeafPaths behaves as in a fresh process after restoring the defaults")
	vCover("history")
}

// (d) an option changes only the behaviour it documents
func H_C18_noninterference() {
	vRestoreDefaults()
	which := vChoose(4)
	b := vChoose(2) == 1
	seqDoc := []byte("<R-x B=\"1\"><!--c--><c> t </c></R-x>")
	ms0, _ := NewMapXmlSeq(seqDoc)
	sx0, _ := ms0.Xml()
	j0, _ := Map{"A-b": "1", "-c": "<"}.Json()
	plain0, _ := NewMapXml([]byte("<r><a>1</a><b>true</b></r>"))
	px0, _ := plain0.Xml()
	dec0, _ := NewMapXml([]byte("<r a=\"&lt;\"><b/></r>"))
	dx0, _ := Map(dec0).Json()
	sdec0, _ := NewMapXmlSeq([]byte("<r a=\"&lt;&amp;\" p:b=\"&gt;\">&amp;<b/></r>"))
	sdx0, _ := Map(sdec0).Json()
	// documented for LeafNodes: with no attribute prefix the no-attributes option still drops the text-key segment
	SetAttrPrefix("")
	lp0 := Map{"a": map[string]interface{}{"#text": "t", "k": "1"}}.LeafPaths(NoAttributes)
	SetAttrPrefix("-")
	hasA := false
	for _, p := range lp0 {
		if p == "a" {
			hasA = true
		}
		vAssert(p != "a.#text", "options: an empty attribute prefix leaves the text-key handling of the no-attributes option as documented")
	}
	vAssert(hasA && len(lp0) == 2, "options: an empty attribute prefix leaves the text-key handling of the no-attributes option as documented")
	switch which {
	case 0: // attribute prefix and key case do not affect the sequence codec or JSON
		SetAttrPrefix([]string{"@", ""}[vChoose(2)])
		CoerceKeysToLower(b)
	case 1: // cast switches do not affect un-cast decoding
		CastValuesToInt(b)
		CastValuesToFloat(!b)
		CastValuesToBool(b)
		CastNanInf(b)
	case 2: // encoder switches do not affect decoding
		XmlCheckIsValid(b)
		if b {
			XmlGoEmptyElemSyntax()
		}
		XMLEscapeChars(b)
	default: // query options do not affect the codecs
		LeafUseDotNotation(b)
		SetFieldSeparator("|")
		SetArraySize(64)
	}
	switch which {
	case 0:
		ms1, _ := NewMapXmlSeq(seqDoc)
		sx1, _ := ms1.Xml()
		j1, _ := Map{"A-b": "1", "-c": "<"}.Json()
		vAssert(string(sx1) == string(sx0), "options: attribute prefix and case folding do not affect the sequence codec")
		vAssert(string(j1) == string(j0), "options: attribute prefix and case folding do not affect JSON")
	case 1:
		plain1, _ := NewMapXml([]byte("<r><a>1</a><b>true</b></r>"))
		px1, _ := plain1.Xml()
		vAssert(string(px1) == string(px0), "options: cast options do not affect un-cast decoding")
	case 2:
		dec1, _ := NewMapXml([]byte("<r a=\"&lt;\"><b/></r>"))
		dx1, _ := Map(dec1).Json()
		vAssert(string(dx1) == string(dx0), "options: encoder switches do not affect decoding")
		sdec1, _ := NewMapXmlSeq([]byte("<r a=\"&lt;&amp;\" p:b=\"&gt;\">&amp;<b/></r>"))
		sdx1, _ := Map(sdec1).Json()
		vAssert(string(sdx1) == string(sdx0), "options: encoder switches do not affect sequence decoding (text and attribute values)")
	default:
		ms1, _ := NewMapXmlSeq(seqDoc)
		sx1, _ := ms1.Xml()
		plain1, _ := NewMapXml([]byte("<r><a>1</a><b>true</b></r>"))
		px1, _ := plain1.Xml()
		vAssert(string(sx1) == string(sx0) && string(px1) == string(px0), "options: query options do not affect the codecs")
	}
	vRestoreDefaults()
	vCover("noninterference")
}

// vProbes: nine behaviours, each rendered as a string (0 sequence decode, 1 sequence
// encode, 2 JSON encode, 3 JSON decode, 4 XML decode, 5 XML decode with cast, 6 XML
// encode, 7 queries, 8 AnyXml)
func vProbes(c1, c2 string) [10]string {
	var out [10]string
	sortStrs := func(l []string) string {
		for i := 1; i < len(l); i++ {
			for j := i; j > 0 && l[j] < l[j-1]; j-- {
				l[j], l[j-1] = l[j-1], l[j]
			}
		}
		r := ""
		for _, x := range l {
			r += x + ";"
		}
		return r
	}
	enc := func(v interface{}, err error) string {
		if err != nil {
			return "error"
		}
		switch t := v.(type) {
		case Map:
			j, _ := t.Json()
			return string(j)
		case MapSeq:
			j, _ := Map(t).Json()
			return string(j)
		case []byte:
			return string(t)
		}
		return "?"
	}
	seqDoc := []byte("<R-x B=\"" + c1 + "1\" p:q=\"2\"><!--c--><c_d> t " + c2 + "</c_d><e/><?pi x?></R-x>")
	ms, e0 := NewMapXmlSeq(seqDoc)
	out[0] = enc(ms, e0)
	fixed := MapSeq{"r": map[string]interface{}{
		"#attr": map[string]interface{}{"a": map[string]interface{}{"#text": "<1", "#seq": 0}},
		"k":     map[string]interface{}{"#text": "t&", "#seq": 0},
		"e":     map[string]interface{}{"#seq": 1},
	}}
	// (a literal MapSeq is malformed once the reserved-key prefix has been changed)
	if vCatch(func() {
		sx, e1 := fixed.Xml()
		out[1] = enc(sx, e1)
	}) {
		out[1] = "panic"
	}
	j2, e2 := Map{"A-b": "1", "-c": "<", "n": 1.5, "#text": "t"}.Json()
	out[2] = enc(j2, e2)
	m3, e3 := NewMapJson([]byte("{\"A-b\":1,\"c_d\":[true,null,\" x \"],\"-e\":\"&lt;\"}"))
	out[3] = enc(m3, e3)
	xmlDoc := []byte("<R-x B=\"" + c1 + "1\"><c_d> t " + c2 + "</c_d><c_d>2</c_d><e/><f>true</f><g>nan</g></R-x>")
	m4, e4 := NewMapXml(xmlDoc)
	out[4] = enc(m4, e4)
	m5, e5 := NewMapXml(xmlDoc, true)
	out[5] = enc(m5, e5)
	em := Map{"r": map[string]interface{}{"-a": "<1", "#text": "t&", "k": []interface{}{"1", nil, ""}, "e": map[string]interface{}{}}}
	x6, e6 := em.Xml()
	x6i, e6i := em.XmlIndent("", " ")
	out[6] = enc(x6, e6) + "|" + enc(x6i, e6i)
	qm := Map{"a": map[string]interface{}{"-k": "1", "#text": "t", "l": []interface{}{map[string]interface{}{"k": "1", "v": "p"}, map[string]interface{}{"k": "2", "v": "q"}}}}
	lp := qm.LeafPaths(true)
	vals, _ := qm.ValuesForPath("a.l", "k:1")
	vk, _ := qm.ValuesForKey("v", "k:2")
	out[7] = sortStrs(lp) + "|" + sortStrs(qm.PathsForKey("k")) + "|" + m_strconv_Itoa(len(vals)) + "," + m_strconv_Itoa(len(vk))
	ax, e8 := AnyXml([]interface{}{map[string]interface{}{"-a": "<", "b": ""}, "s&"}, "t")
	out[8] = enc(ax, e8)
	ms9, e9 := NewMapXmlSeq([]byte("<r n=\"7\"><c>2.5</c><d>true</d><e>x</e></r>"), true)
	out[9] = enc(ms9, e9)
	return out
}

// vAffects: the probes an option setter is documented to influence
func vAffects(i int) []int {
	switch i {
	case 0, 1: // attribute prefix: Map decoding and encoding, attribute filtering of leaf queries
		return []int{4, 5, 6, 7, 8}
	case 2, 3, 8: // tag sequence numbers, lower-case keys, simple values as maps: the Map decoder
		return []int{4, 5}
	case 4, 5, 7: // white-space trimming, snake-case keys, XMPP stream tag: both XML decoders
		return []int{0, 4, 5, 9}
	case 6, 9, 10, 11: // cast switches: decoding with the cast flag only
		return []int{5, 9}
	case 12: // the skip-tag function: the Map decoder with the cast flag only
		return []int{5}
	case 13, 14, 15: // empty-element syntax, validity check, escaping: the XML encoders
		return []int{1, 6, 8}
	case 16: // decoder-side escaping: the XML decoders
		return []int{0, 4, 5, 9}
	case 17: // prefix of the reserved keys: everything XML, nothing JSON
		return []int{0, 1, 4, 5, 6, 7, 8, 9}
	case 18, 19: // leaf notation, field separator: queries
		return []int{7}
	}
	return nil // array size: nothing observable
}

// (d) matrix form: every setter x every behaviour it does not document
func H_C18_matrix() {
	vRestoreDefaults()
	c1 := vEscText(vNondetString(0, 1, "<&\"x"), true) // a symbolic attribute byte
	c2 := vEscText(vNondetString(1, 1, "x&>"), false)   // a symbolic text byte
	before := vProbes(c1, c2)
	i := vChoose(vNumSetters)
	form := vChoose(2)
	b := vChoose(2) == 1
	arg := []string{"@", "_", "at"}[vChoose(3)]
	if i == 0 && vChoose(2) == 1 {
		arg = ""
	}
	vCallSetter(i, form, b, arg)
	after := vProbes(c1, c2)
	aff := vAffects(i)
	for p := 0; p < 10; p++ {
		may := false
		for _, a := range aff {
			if a == p {
				may = true
			}
		}
		if !may {
			vAssert(after[p] == before[p], "options(matrix): a setter leaves every behaviour it does not document as it was")
		}
	}
	vRestoreDefaults()
	again := vProbes(c1, c2)
	for p := 0; p < 10; p++ {
		vAssert(again[p] == before[p], "options(matrix): restoring the defaults restores every behaviour")
	}
	vCover("matrix")
}
