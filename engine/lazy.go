package main

// Bounded lazy symbolic JSON/XML-shaped values.

import (
	"fmt"
	"math"
)

type Spec struct {
	Depth        int
	Width        int
	Kinds        string // m l s f b n i
	KeyAlpha     string
	KeyMin       int
	KeyMax       int
	StrAlpha     string
	StrMax       int
	NoListInList bool
	NoEmptyList  bool
	NoEmptyMap   bool
	ListMin      int
	StrMin       int
	MapWidth     int // width of maps if > 0 (lists keep Width)
}

type Lazy struct {
	ID     int
	Spec   *Spec
	Depth  int
	InList bool
	Res    *Iface
	Kind   byte
	// initial structure (for the tape)
	Keys   []Str
	Kids   []*Lazy
	SizeOK bool
	S      Str
	T      *Term
	Map    *MapObj
	Birth  int // allocation serial of the nondet call: materialised objects pre-exist
}

func (x *Exec) newLazy(sp *Spec, depth int, inList bool) *Lazy {
	x.lazyN++
	return &Lazy{ID: x.lazyN, Spec: sp, Depth: depth, InList: inList, Birth: x.serial}
}

func (lz *Lazy) allowedKinds() []byte {
	var ks []byte
	for i := 0; i < len(lz.Spec.Kinds); i++ {
		k := lz.Spec.Kinds[i]
		if (k == 'm' || k == 'l') && lz.Depth <= 0 {
			continue
		}
		if k == 'l' && lz.InList && lz.Spec.NoListInList {
			continue
		}
		ks = append(ks, k)
	}
	return ks
}

func (x *Exec) constrainAlpha(b *Term, alpha string) {
	if alpha == "" {
		return
	}
	c := x.ts.tFals
	b.Dom = nil
	dom := make([]uint64, 0, len(alpha))
	for i := 0; i < len(alpha); i++ {
		c = x.ts.Or(c, x.ts.Eq(b, x.ts.BV(8, uint64(alpha[i]))))
		if !inDom(dom, uint64(alpha[i])) {
			dom = append(dom, uint64(alpha[i]))
		}
	}
	x.addPC(c)
	b.Dom = dom
}

func (x *Exec) symString(min, max int, alpha string, what string) Str {
	n := min
	if max > min {
		n = min + x.pick(what+"-len", max-min+1)
	}
	b := make([]*Term, n)
	for i := range b {
		b[i] = x.fresh("c", SBV8)
		x.constrainAlpha(b[i], alpha)
	}
	return Str{b}
}

func (x *Exec) force(lz *Lazy) Iface {
	if lz.Res != nil {
		return *lz.Res
	}
	ks := lz.allowedKinds()
	if len(ks) == 0 {
		panic(abortSig{"unsupported", "lazy node with no allowed kind"})
	}
	k := ks[x.pick("kind", len(ks))]
	lz.Kind = k
	var r Iface
	switch k {
	case 'm':
		m := x.newMap(x.eng.mapType)
		m.Serial = lz.Birth
		m.Lazy = lz
		lz.Map = m
		r = Iface{T: x.eng.mapType, V: m}
	case 'l':
		lo := lz.Spec.ListMin
		if lz.Spec.NoEmptyList && lo < 1 {
			lo = 1
		}
		n := lo
		if lz.Spec.Width > lo {
			n = lo + x.pick("listsize", lz.Spec.Width-lo+1)
		}
		a := x.newArr(n)
		a.Serial = lz.Birth
		for i := 0; i < n; i++ {
			kid := x.newLazy(lz.Spec, lz.Depth-1, true)
			kid.Birth = lz.Birth
			lz.Kids = append(lz.Kids, kid)
			a.E[i] = kid
		}
		lz.SizeOK = true
		r = Iface{T: x.eng.listType, V: Slice{A: a, Len: n, Cap: n}}
	case 's':
		s := x.symString(lz.Spec.StrMin, lz.Spec.StrMax, lz.Spec.StrAlpha, "str")
		lz.S = s
		r = Iface{T: x.eng.stringType, V: s}
	case 'f':
		f := x.fresh("f", SFP)
		x.addPC(x.ts.Not(x.ts.FUn(OFIsNaN, f)))
		x.addPC(x.ts.Not(x.ts.FUn(OFIsInf, f)))
		lz.T = f
		r = Iface{T: x.eng.float64Type, V: f}
	case 'b':
		b := x.fresh("b", SBool)
		lz.T = b
		r = Iface{T: x.eng.boolType, V: b}
	case 'i':
		i := x.fresh("i", SBV64)
		lz.T = i
		r = Iface{T: x.eng.intType, V: i}
	case 'n':
		r = Iface{}
	default:
		x.unsupported("lazy kind " + string(k))
	}
	lz.Res = &r
	return r
}

func (x *Exec) forceMapSize(m *MapObj) {
	if m == nil || m.Lazy == nil {
		return
	}
	lz := m.Lazy
	m.Lazy = nil
	lo := 0
	if lz.Spec.NoEmptyMap {
		lo = 1
	}
	n := lo
	mw := lz.Spec.Width
	if lz.Spec.MapWidth > 0 {
		mw = lz.Spec.MapWidth
	}
	if mw > lo {
		n = lo + x.pick("mapsize", mw-lo+1)
	}
	for i := 0; i < n; i++ {
		k := x.symString(lz.Spec.KeyMin, lz.Spec.KeyMax, lz.Spec.KeyAlpha, "key")
		for _, pk := range lz.Keys {
			x.addPC(x.ts.Not(x.ts.StrEq(pk, k)))
		}
		kid := x.newLazy(lz.Spec, lz.Depth-1, false)
		kid.Birth = lz.Birth
		lz.Keys = append(lz.Keys, k)
		lz.Kids = append(lz.Kids, kid)
		m.Entries = append(m.Entries, &MapEntry{K: k, V: kid})
	}
	lz.SizeOK = true
}

func (x *Exec) dumpLazy(lz *Lazy, m map[string]uint64) interface{} {
	if lz == nil {
		return nil
	}
	if lz.Res == nil {
		return map[string]interface{}{"k": "u"}
	}
	switch lz.Kind {
	case 'm':
		keys := []interface{}{}
		kids := []interface{}{}
		for i, k := range lz.Keys {
			bs := make([]int, len(k.B))
			for j, t := range k.B {
				bs[j] = int(evalTerm(t, m))
			}
			keys = append(keys, bs)
			kids = append(kids, x.dumpLazy(lz.Kids[i], m))
		}
		return map[string]interface{}{"k": "m", "keys": keys, "kids": kids}
	case 'l':
		kids := []interface{}{}
		for _, kd := range lz.Kids {
			kids = append(kids, x.dumpLazy(kd, m))
		}
		return map[string]interface{}{"k": "l", "kids": kids}
	case 's':
		bs := make([]int, len(lz.S.B))
		for j, t := range lz.S.B {
			bs[j] = int(evalTerm(t, m))
		}
		return map[string]interface{}{"k": "s", "v": bs}
	case 'f':
		return map[string]interface{}{"k": "f", "v": fmt.Sprintf("%x", evalTermFP(lz.T, m))}
	case 'b':
		return map[string]interface{}{"k": "b", "v": evalTerm(lz.T, m) == 1}
	case 'i':
		return map[string]interface{}{"k": "i", "v": int64(evalTerm(lz.T, m))}
	}
	return map[string]interface{}{"k": "n"}
}

func evalTermFP(t *Term, m map[string]uint64) uint64 {
	if t.Op == OVar {
		if v, ok := m[t.Name]; ok {
			return v
		}
		return math.Float64bits(0)
	}
	return t.C
}
