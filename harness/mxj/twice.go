package mxj

import "io"

// Sequence harnesses: an operation must not depend on what an earlier call saw (a memo keyed
// too coarsely, a remembered flag, a buffer shared with the caller). Each runs the operation
// of its property two or three times with something changed in between and checks every
// result against the same oracle as the single-call harnesses.

func init() {
	vHarnesses["H_C02_twice"] = H_C02_twice
	vHarnesses["H_C04_twice"] = H_C04_twice
	vHarnesses["H_C05_twice"] = H_C05_twice
	vHarnesses["H_C06_twice"] = H_C06_twice
	vHarnesses["H_C07_twice"] = H_C07_twice
	vHarnesses["H_C08_twice"] = H_C08_twice
	vHarnesses["H_C09_twice"] = H_C09_twice
	vHarnesses["H_C10_twice"] = H_C10_twice
	vHarnesses["H_C11_twice"] = H_C11_twice
	vHarnesses["H_C12_twice"] = H_C12_twice
	vHarnesses["H_C13_twice"] = H_C13_twice
	vHarnesses["H_C14_twice"] = H_C14_twice
	vHarnesses["H_C18_escape_seq"] = H_C18_escape_seq
	vHarnesses["H_C19_twice"] = H_C19_twice
}

// C02: two round trips with the cast switches changed in between; escape setters in sequence
func H_C02_twice() {
	vResetDecOpts()
	texts := []string{"true", "1.50", "x", "42"}
	t := texts[vChoose(len(texts))]
	for i := 0; i < 2; i++ {
		kid := &vXElem{name: "k", items: []vXItem{{kind: 1, text: t}}}
		root := &vXElem{name: "r", attrs: [][2]string{{"a", t}}, items: []vXItem{{kind: 0, el: kid}}}
		CastValuesToInt(false)
		CastValuesToFloat(vChoose(2) == 1)
		CastValuesToBool(vChoose(2) == 1)
		vC02cast(root, vDecOpts{attrPrefix: "-", textKey: "#text"}, vChoose(2) == 1, true)
		// the original document once more, so that the last text cast under these options is the
		// first one cast under the next
		_, _ = NewMapXml([]byte(vRenderElem(&vXElem{name: "r", items: []vXItem{{kind: 1, text: t}}})), true)
	}
	vResetCastOpts()
	// value escaping requested, then the decoder switch set to what it already is
	XMLEscapeChars(true)
	switch vChoose(3) {
	case 1:
		XMLEscapeCharsDecoder(false)
	case 2:
		XMLEscapeCharsDecoder(false)
		XMLEscapeCharsDecoder(false)
	}
	m := Map{"r": map[string]interface{}{"-a": "<&", "k": vNondetString(1, 1, "<&\"x")}}
	x, err := m.Xml()
	XMLEscapeChars(false)
	vAssert(err == nil && vSingleRoot(x), "twice: value escaping stays on when the decoder switch is set to off again")
	vCover("twice")
}

// C04: the sequence codec after another option history
func H_C04_twice() {
	vResetDecOpts()
	doc := "<po:line-item a-b=\"1&amp;\"><q-r>" + vNondetString(1, 1, "xy") + "</q-r></po:line-item>"
	want, okw := vRawTokens([]byte(doc))
	vAssume(okw)
	switch vChoose(3) {
	case 1: // an earlier decode with snake-case keys on
		CoerceKeysToSnakeCase(true)
		_, _ = NewMapXmlSeq([]byte(doc))
		CoerceKeysToSnakeCase(false)
	case 2: // encoder escaping requested, then replaced by decoder escaping, then both off
		XMLEscapeChars(true)
		XMLEscapeCharsDecoder(true)
		ms0, _ := NewMapXmlSeq([]byte(doc))
		x0, e0 := ms0.Xml()
		t0, ok0 := vRawTokens(x0)
		vAssert(e0 == nil && ok0 && vSameToks(t0, want), "twice(seq): with decoder-side escaping the round trip reproduces the token stream, whatever was requested before")
		XMLEscapeCharsDecoder(false)
	}
	XMLEscapeChars(true)
	ms, err := NewMapXmlSeq([]byte(doc))
	vAssert(err == nil, "twice(seq): decodes")
	x, xerr := ms.Xml()
	XMLEscapeChars(false)
	got, okg := vRawTokens(x)
	vAssert(xerr == nil && okg && vSameToks(got, want), "twice(seq): the round trip reproduces the token stream whatever was decoded or set before")
	vCover("twice")
}

// C05: a formatter call that fails must not leave the escaping mode changed
func H_C05_twice() {
	vResetDecOpts()
	XMLEscapeChars(false)
	XMLEscapeCharsDecoder(false)
	switch vChoose(3) {
	case 1:
		_, _ = BeautifyXml([]byte("<a><b>"), "", " ") // truncated input: an error
	case 2:
		_, _ = BeautifyXml([]byte("<a>x&amp;</a>"), "", " ")
		_, _ = NewMapXmlSeq([]byte("<a"))
	}
	XMLEscapeChars(true)
	v := vNondetSpecial(2)
	m := Map{"r": map[string]interface{}{"-a": v, "k": v}}
	x, err := m.Xml()
	XMLEscapeChars(false)
	vAssert(err == nil && vSingleRoot(x), "twice: with value escaping requested the output is well formed, whatever ran before")
	m2, derr := NewMapXml(x)
	r, _ := m2["r"].(map[string]interface{})
	vAssert(derr == nil && r["-a"] == v, "twice: and decodes back to the value")
	// the same text decoded under one escaping mode and then under the other
	doc := []byte("<d>" + vEscText(vNondetString(1, 1, "a&<"), false) + " b</d>")
	e1 := vChoose(2) == 1
	XMLEscapeCharsDecoder(e1)
	d1, _ := NewMapXml(doc)
	XMLEscapeCharsDecoder(!e1)
	d2, _ := NewMapXml(doc)
	XMLEscapeCharsDecoder(e1)
	d3, _ := NewMapXml(doc)
	XMLEscapeCharsDecoder(false)
	vAssert(vDeepEq(map[string]interface{}(d1), map[string]interface{}(d3)), "twice: decoding depends on the escaping mode in force, not on the previous decode")
	s1, _ := d1["d"].(string)
	s2, _ := d2["d"].(string)
	vAssert((s1 == s2) == (s1 == refEscape(s1) && s2 == refEscape(s2) && (len(s1) == 3)), "twice: the two modes differ exactly when the text has a special character")
	vCover("twice")
}

// C06: safe after default and default after safe; the input buffer is not written
func H_C06_twice() {
	m := Map{"k": vNondetString(1, 1, "<&x"), "l": []interface{}{"<"}}
	first := vChoose(2) == 1
	vC06check(m, first, vChoose(2) == 1)
	vC06check(m, !first, vChoose(2) == 1)
	vC06check(m, first, false)
	// documents in one buffer: decoding a sub-slice leaves the rest of the buffer alone
	buf := []byte("[1," + vNondetString(1, 1, "23") + "] {\"a\":1}  ")
	keep := string(buf)
	a, aerr := NewMapJson(buf[:5])
	vAssert(aerr == nil && len(a) == 1, "twice: an array document in a sub-slice decodes")
	vAssert(string(buf) == keep, "twice: NewMapJson does not write into its input buffer")
	b, berr := NewMapJson(buf[6:13])
	vAssert(berr == nil && b["a"] == 1.0, "twice: the next document in the same buffer decodes")
	vCover("twice")
}

// C07: two queries on one Map, the second sharing path segments with the first
func H_C07_twice() {
	m := Map(vNondetMap(vSpec{Depth: 3, Width: 2, MapWidth: 1, Kinds: "mls", KeyAlpha: "ab", KeyMin: 1, KeyMax: 1, StrAlpha: "xy", StrMin: 1, StrMax: 1, NoListInList: true}))
	paths := []string{"a[1].b", "a[1].a.b", "a[0].b", "a[1]", "a.b[1]", "b[1].b"}
	for i := 0; i < 2; i++ {
		p := paths[vChoose(len(paths))]
		steps := vParseSteps(p)
		want := refDenote(steps, map[string]interface{}(m))
		got, err := m.ValuesForPath(p)
		vAssert(err == nil && vSameList(got, want), "twice: each query returns what its own path denotes, whatever was asked before")
	}
	vCover("twice")
}

// C08: the same sub-key text under two field separators; a sub-key slice rewritten in place
func H_C08_twice() {
	m := Map{"r": []interface{}{
		map[string]interface{}{"a": "x|y", "b": "1"},
		map[string]interface{}{"a|x": "y", "b": "2"},
		map[string]interface{}{"a": "x", "b": "3"},
	}}
	sk := "a|x|y"
	SetFieldSeparator(":")
	g1, e1 := m.ValuesForKey("r", "a:x")
	SetFieldSeparator("|")
	g3, e3 := m.ValuesForKey("r", "a:x")    // the same text under another separator: one name "a:x", no value
	g2, e2 := m.ValuesForKey("r", sk[:3])   // a|x  -> a == "x"
	SetFieldSeparator(":")
	g4, e4 := m.ValuesForKey("r", sk)       // a|x|y is one name without value: an error or nothing
	_ = e4
	vAssert(e1 == nil && len(g1) == 1, "twice: a:x under ':' selects the member whose a is x")
	vAssert(e2 == nil && len(g2) == 1, "twice: a|x under '|' selects the member whose a is x")
	vAssert(e3 != nil || len(g3) == 0, "twice: a:x under '|' is not the condition a == x")
	vAssert(len(g4) == 0, "twice: a|x|y under ':' selects nothing")
	SetFieldSeparator()
	// the same filtered, indexed query twice
	m2 := Map{"sect": []interface{}{map[string]interface{}{"item": []interface{}{
		map[string]interface{}{"kind": "x", "v": "a"}, map[string]interface{}{"kind": "y", "v": "b"}, map[string]interface{}{"kind": "y", "v": "c"}}}}}
	q1, qe1 := m2.ValuesForPath("sect[0].item", "kind:y")
	q2, qe2 := m2.ValuesForPath("sect[0].item", "kind:y")
	q3, _ := m2.ValuesForPath("sect[0].item", "kind:x")
	vAssert(qe1 == nil && qe2 == nil && len(q1) == 2 && vSameList(q1, q2) && len(q3) == 1, "twice: the same filtered query gives the same values again")
	// the caller reuses one slice for its conditions
	conds := []string{"b:1"}
	h1, _ := m.ValuesForKey("r", conds...)
	conds[0] = "b:" + vNondetString(1, 1, "23")
	h2, _ := m.ValuesForKey("r", conds...)
	vAssert(len(h1) == 1 && len(h2) == 1 && !vSame(h1[0], h2[0]), "twice: conditions are read from the arguments of the call, not remembered from the previous one")
	vCover("twice")
}

// C09: leaf paths follow the notation option in force at the call
func H_C09_twice() {
	m := Map{"a": []interface{}{"p", map[string]interface{}{"-k": "1", "#text": vNondetString(1, 1, "xy")}}}
	d1 := vChoose(2) == 1
	LeafUseDotNotation(d1)
	p1 := m.LeafPaths()
	v1 := m.LeafValues()
	LeafUseDotNotation(!d1)
	SetAttrPrefix([]string{"-", "@"}[vChoose(2)])
	p2 := m.LeafPaths(vChoose(2) == 1)
	m["b"] = "new"
	LeafUseDotNotation(d1)
	SetAttrPrefix("-")
	p3 := m.LeafPaths()
	v3 := m.LeafValues()
	LeafUseDotNotation(false)
	vAssert(len(p1) == 3 && len(v1) == 3 && len(p3) == 4 && len(v3) == 4, "twice: the leaves are those of the Map as it is at the call")
	has := func(l []string, s string) bool {
		for _, x := range l {
			if x == s {
				return true
			}
		}
		return false
	}
	idx := "a[0]"
	if d1 {
		idx = "a.0"
	}
	vAssert(has(p1, idx) && has(p3, idx) && has(p3, "b"), "twice: the notation is the one in force at the call")
	if len(p2) > 0 {
		other := "a.0"
		if d1 {
			other = "a[0]"
		}
		vAssert(has(p2, other), "twice: a changed notation option shows in the next call")
	}
	vCover("twice")
}

// C10: conditions come from the call's arguments; a second update sees the first one's result
func H_C10_twice() {
	mk := func(b, k string) interface{} { return map[string]interface{}{"b": b, "k": k} }
	m := Map{"l": []interface{}{mk("1", "o"), mk("2", "o"), mk("3", "o")}}
	conds := []string{"b:1"}
	c1, e1 := m.UpdateValuesForPath("k:N", "l.k", conds...)
	conds[0] = "b:" + vNondetString(1, 1, "23")
	c2, e2 := m.UpdateValuesForPath("k:M", "l.k", conds...)
	vAssert(e1 == nil && e2 == nil && c1 == 1 && c2 == 1, "twice: each call replaces the members its own conditions select")
	l := m["l"].([]interface{})
	n, mm := 0, 0
	for _, x := range l {
		switch x.(map[string]interface{})["k"] {
		case "N":
			n++
		case "M":
			mm++
		}
	}
	vAssert(n == 1 && mm == 1 && l[0].(map[string]interface{})["k"] == "N", "twice: conditions are not remembered from the previous call")
	c3, _ := m.UpdateValuesForPath("k:Z", "l.k", "b:9")
	vAssert(c3 == 0 && l[0].(map[string]interface{})["k"] == "N", "twice: an update that selects nothing changes nothing")
	vCover("twice")
}

// C11: an operation after another one changed the tree
func H_C11_twice() {
	c := vNondetString(1, 1, "xy")
	m := Map{"a": map[string]interface{}{"b": map[string]interface{}{"x": c}, "c": map[string]interface{}{"z": "1"}}}
	vAssert(m.SetValueForPath("2", "a.b.x") == nil, "twice: set")
	switch vChoose(3) {
	case 0:
		vAssert(m.Remove("a.b") == nil, "twice: remove")
	case 1:
		vAssert(m.RenameKey("a.b", "d") == nil, "twice: rename")
	default:
		vAssert(m.Remove("a.b") == nil && m.SetValueForPath(map[string]interface{}{}, "a.b") == nil, "twice: remove and re-create")
	}
	mark := vMark(map[string]interface{}(m))
	err := m.SetValueForPath("3", "a.b.y")
	if ex, _ := m.Exists("a.b"); !ex {
		vAssert(err != nil, "twice: setting below a path that no longer exists is an error")
		vAssertUnchangedSince(mark, "twice: and changes nothing")
	}
	cz, _ := m.ValueForPath("a.c.z")
	vAssert(cz == "1", "twice: unrelated entries are untouched")
	// a value moved to a second place, then the old place removed
	m2 := Map{"p": map[string]interface{}{"q": map[string]interface{}{"k": c}}, "c": map[string]interface{}{}}
	v, _ := m2.ValueForPath("p.q")
	vAssert(m2.SetValueForPath(v, "c.d") == nil && m2.Remove("p.q") == nil, "twice: move")
	moved, _ := m2.ValueForPath("c.d.k")
	vAssert(moved == c, "twice: removing the old place leaves the moved value intact")
	vCover("twice")
}

// C12: a rejected call leaves nothing behind that a later call could trip over
func H_C12_twice() {
	c := vNondetString(1, 1, "xy")
	m := Map{"c": map[string]interface{}{"k": c}, "d": "D", "e": []interface{}{"1"}}
	if vChoose(2) == 1 {
		_, err := m.NewMap("c:x", "d:x.z", "e:q.*")
		vAssert(err != nil, "twice: a malformed pair is rejected, also after well-formed ones")
	}
	mark := vMark(map[string]interface{}(m))
	n, err := m.NewMap("c:x", "d:x.z")
	vAssert(err == nil, "twice: overlapping pairs are accepted")
	vAssertUnchangedSince(mark, "twice: the receiver is not modified, whatever was called before")
	_ = n
	vCover("twice")
}

// C13: one stream ends with its last byte delivered together with io.EOF and is not drained;
// the next stream is unaffected
type vEOFReader struct {
	b []byte
	i int
}

func (r *vEOFReader) Read(p []byte) (int, error) {
	if r.i >= len(r.b) {
		return 0, io.EOF
	}
	n := copy(p, r.b[r.i:])
	r.i += n
	if r.i >= len(r.b) {
		return n, io.EOF // the final data together with io.EOF
	}
	return n, nil
}

func H_C13_twice() {
	vResetDecOpts()
	c := vNondetString(1, 1, "yz")
	a := &vEOFReader{b: []byte("{\"a\":1}")}
	m1, e1 := NewMapJsonReader(a)
	vAssert(e1 == nil && m1["a"] == 1.0, "twice: the only document of the first stream is read")
	b := &vChunkReader{b: []byte("{\"b\":\"" + c + "\"}{\"c\":2}"), n: 3}
	m2, e2 := NewMapJsonReader(b)
	vAssert(e2 == nil && m2["b"] == c, "twice: the next stream starts with its own first document")
	x1 := &vEOFReader{b: []byte("<a>1</a>")}
	_, ex := NewMapXmlReader(x1)
	x2 := &vChunkReader{b: []byte("<b>" + c + "</b>"), n: 2}
	m3, e3 := NewMapXmlReader(x2)
	vAssert(ex == nil && e3 == nil && m3["b"] == c, "twice: the same for the XML readers")
	// two readers used in turn
	r1 := &vChunkReader{b: []byte("<p>1</p><p>2</p>"), n: 64}
	r2 := &vChunkReader{b: []byte("<q>" + c + "</q>"), n: 64}
	p1, _ := NewMapXmlReader(r1)
	q1, eq := NewMapXmlReader(r2)
	p2, ep := NewMapXmlReader(r1)
	vAssert(p1["p"] == "1" && eq == nil && q1["q"] == c && ep == nil && p2["p"] == "2", "twice: readers used alternately each continue where they were")
	vCover("twice")
}

// C14: the same text under two option settings
func H_C14_twice() {
	text := []string{"42", "TRUE", "1.50", "NaN", "-7"}[vChoose(5)]
	presets := []vCastOpts{
		{toFloat: true, toBool: true},
		{toInt: true},
		{toInt: true, toFloat: true, toBool: true},
		{toBool: true, nanInf: true, toFloat: true},
		{},
	}
	o1 := presets[vChoose(len(presets))]
	o2 := presets[vChoose(len(presets))]
	vC14(text, o1)
	vC14(text, o2)
}

// C18: every sequence of up to four calls of the two escaping switches, then both off again
func H_C18_escape_seq() {
	vRestoreDefaults()
	f1, f2, f3 := vProbe()
	n := 2 + vChoose(3)
	for i := 0; i < n; i++ {
		b := vChoose(2) == 1
		if vChoose(2) == 1 {
			XMLEscapeChars(b)
		} else {
			XMLEscapeCharsDecoder(b)
		}
	}
	if vChoose(2) == 1 {
		XMLEscapeChars(false)
		XMLEscapeCharsDecoder(false)
	} else {
		XMLEscapeCharsDecoder(false)
		XMLEscapeChars(false)
	}
	g1, g2, g3 := vProbe()
	vAssert(g1 == f1 && g2 == f2 && g3 == f3, "options: after any sequence of calls of the two escaping switches, switching both off restores the behaviour of a fresh process")
	em := Map{"r": map[string]interface{}{"-a": "<", "k": "&"}}
	x, _ := em.Xml()
	vAssert(string(x) == "<r a=\"<\"><k>&</k></r>", "options: and values are written as they are")
	vCover("escape-seq")
}

// C19: a copy of a copy, and a second copy after the first one was edited
func H_C19_twice() {
	c := vNondetString(1, 1, "xy")
	m := Map{"a": map[string]interface{}{"b": []interface{}{c, map[string]interface{}{"d": "1"}}}, "n": 1.5}
	c1, e1 := m.Copy()
	vAssert(e1 == nil, "twice: copy")
	c1["a"].(map[string]interface{})["b"].([]interface{})[0] = "edited"
	c1["a"].(map[string]interface{})["z"] = "added"
	c2, e2 := m.Copy()
	vAssert(e2 == nil && vDeepEq(map[string]interface{}(c2), map[string]interface{}(m)), "twice: a second copy equals the original, not the edited first copy")
	c3, e3 := c2.Copy()
	vAssert(e3 == nil && vDeepEq(map[string]interface{}(c3), map[string]interface{}(m)) && !vShares(map[string]interface{}(c3), map[string]interface{}(c2)), "twice: a copy of a copy equals the original and shares nothing")
	vCover("twice")
}

// vParseSteps: "a[1].b.*" -> steps (single-digit indexes)
func vParseSteps(p string) []vStep {
	var out []vStep
	cur := ""
	flush := func() {
		if cur == "" {
			return
		}
		s := vStep{key: cur, idx: -1}
		if n := len(cur); n >= 4 && cur[n-1] == ']' && cur[n-3] == '[' {
			s.key, s.idx = cur[:n-3], int(cur[n-2]-'0')
		}
		if s.key == "*" {
			s.wild = true
		}
		out = append(out, s)
		cur = ""
	}
	for i := 0; i < len(p); i++ {
		if p[i] == '.' {
			flush()
		} else {
			cur += string(p[i])
		}
	}
	flush()
	return out
}
