#!/usr/bin/env python3
# Calibration of the thorough-tier size parameters (vP/vParam).  For every harness of the thorough
# lists: start from the quick values and raise one parameter at a time (+1) towards the value coded
# for the thorough tier while the *estimated* exploration time (Knuth random-probe estimate of the
# number of paths x measured cost per path / workers) stays within BUDGET seconds; then confirm the
# chosen profile by a real exhaustive run (cap 4 x BUDGET), stepping back if it does not complete.
# usage: autocalib.py <budget-seconds> <out.json> [property ...]
import json,subprocess,sys,re,os
budget=int(sys.argv[1]); outp=sys.argv[2]; only=sys.argv[3:]
repo=os.environ.get('CALIB_REPO','/repo')
c=json.load(open('/verif/checks.json'))
res=json.load(open(outp)) if os.path.exists(outp) else {}
PREV={}
for f in os.environ.get('CALIB_PREV','').split(','):
    if f and os.path.exists(f): PREV.update(json.load(open(f)))
def run(pk,h,tier,params,timeout,estimate=0):
    cmd=['/verif/bin/symgo','run','-repo',repo,'-harness-dir',os.environ.get('CALIB_HARNESS','/verif/harness'),'-pkgs',pk,'-tier',tier,'-timeout','%ds'%timeout,'-h',h]
    if params: cmd+=['-params',','.join('%s=%d'%kv for kv in sorted(params.items()))]
    if estimate: cmd+=['-estimate',str(estimate)]
    o=subprocess.run(cmd,capture_output=True,text=True).stdout
    m=re.search(r'^== \S+ paths=(\d+) .*? wall=([\d.]+)s',o,re.M)
    paths,wall=(int(m.group(1)),float(m.group(2))) if m else (0,0.0)
    st='ok'
    if 'TRUNCATED' in o: st='trunc'
    if 'unsupported:' in o: st='unsupp'
    if re.search(r'^   VIOL',o,re.M): st='viol'
    if not m: st='error'
    ps={}
    m2=re.search(r'params\(value/default\): (.*)',o)
    if m2 and m2.group(1).strip():
        for kv in m2.group(1).split(','):
            k,v=kv.split('='); a,b=v.split('/'); ps[k]=(int(a),int(b))
    est=None
    m3=re.search(r'ESTIMATE paths=(\d+) stderr=(\d+) probes=(\d+) cpu_s_per_path=([\d.]+)',o)
    if m3: est=(float(m3.group(1)),float(m3.group(4)))
    return st,paths,wall,ps,est
RATE={}
def esttime(pk,h,params):
    # estimated number of paths / measured throughput of a real run of the quick profile
    st,_,_,_,est=run(pk,h,'thorough',params,120,estimate=3000)
    if st in('unsupp','error') or not est: return None,st
    return 1.5*est[0]/RATE[h], st
for pid in sorted(c):
    if only and pid not in only: continue
    pk=','.join(c[pid]['pkgs'])
    for hc in c[pid]['thorough']:
        h=hc['h']
        if h in res and res[h].get('done'): continue
        _,_,_,qs,_=run(pk,h,'quick',None,60,estimate=300)
        _,_,_,ts,_=run(pk,h,'thorough',None,60,estimate=300)
        q={k:v[1] for k,v in qs.items()}; t={k:v[1] for k,v in ts.items()}
        for k in t: q.setdefault(k,t[k])
        for k in q: t.setdefault(k,q[k])
        log=[]
        cur=dict(q)
        st0,p0,w0,_,_=run(pk,h,'thorough',dict(q),4*budget)
        RATE[h]=max(p0,1)/max(w0,0.5)
        log.append(('quick-real',st0,p0,w0))
        prev=PREV.get(h)
        if prev and prev.get('status')=='ok' and prev.get('params') is not None and set(prev['params'])==set(q):
            # continue from an earlier calibration (smaller budget)
            cur=dict(prev['params'])
            improved=True
            while improved:
                improved=False
                for k in sorted(t):
                    if t[k]>cur[k]:
                        cand=dict(cur); cand[k]+=1
                        et,st=esttime(pk,h,cand); log.append((dict(cand),et,st))
                        if et is not None and et<=budget:
                            cur=cand; improved=True
            et=None
        else:
            et,st=esttime(pk,h,dict(t)); log.append(('coded',et,st))
        # decreasing parameters (compensations coded for the thorough tier) stay at their quick value
        if prev and et is None:
            pass
        elif et is not None and et<=budget:
            cur=dict(t)
            for k in t:
                if t[k]<q[k]: cur[k]=q[k]      # keep the richer quick value if affordable
            et2,_=esttime(pk,h,cur); log.append((dict(cur),et2))
            if et2 is None or et2>budget: cur=dict(t)
        else:
            improved=True
            while improved:
                improved=False
                for k in sorted(t):
                    if t[k]>cur[k]:
                        cand=dict(cur); cand[k]+=1
                        et,st=esttime(pk,h,cand); log.append((dict(cand),et,st))
                        if et is not None and et<=budget:
                            cur=cand; improved=True
        # beyond the coded thorough values: numeric (non-boolean) parameters may grow further
        if os.environ.get('CALIB_EXTEND','1')=='1':
            improved=True
            while improved:
                improved=False
                for k in sorted(t):
                    hi=max(q[k],t[k])
                    if hi<=1 or k in ('conds','forms','strmin','str','nil','rich','trees','allopts','extras','wild'): continue
                    if cur[k]>=hi+int(os.environ.get('CALIB_BEYOND','2')) or cur[k]<hi: continue
                    cand=dict(cur); cand[k]+=1
                    et,st=esttime(pk,h,cand); log.append((dict(cand),et,st))
                    if et is not None and et<=budget:
                        cur=cand; improved=True
        # confirm by a real run; step back towards quick if it does not complete
        order=[k for k in sorted(cur) if cur[k]>q[k]]
        while True:
            st,paths,wall,_,_=run(pk,h,'thorough',cur,4*budget)
            log.append(('real',dict(cur),st,paths,wall))
            if st=='ok' or not order: break
            k=order.pop(); cur[k]-=1
            if cur[k]>q[k]: order.append(k)
        res[h]={'done':True,'status':st,'params':cur,'paths':paths,'wall':wall,'quick':q,'thorough':t,'log':log}
        print(h,st,json.dumps(cur),'quick=',json.dumps(q),paths,wall,flush=True)
        json.dump(res,open(outp,'w'),indent=1)
