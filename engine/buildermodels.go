package main

// strings.Builder (its methods use unsafe for copy detection) and the one fixed regexp
// mxj uses, as engine models.

import (
	"golang.org/x/tools/go/ssa"
)

type RegexpV struct{ Pattern string }

func builderBuf(x *Exec, recv Value) (StructV, Slice) {
	p := recv.(Ptr)
	if p.C == nil {
		x.tpanic("nil *strings.Builder")
	}
	sv := (*p.C).(StructV)
	buf, _ := sv[1].(Slice)
	return sv, buf
}

func init() {
	bm := map[string]intrinsic{
		"(*strings.Builder).WriteString": func(x *Exec, fr *frame, fn *ssa.Function, a []Value) Value {
			sv, buf := builderBuf(x, a[0])
			s := a[1].(Str)
			add := make([]Value, len(s.B))
			for i, t := range s.B {
				add[i] = t
			}
			sv[1] = x.appendVals(buf, add)
			return Tuple{x.ts.BV(64, uint64(len(s.B))), Iface{}}
		},
		"(*strings.Builder).Write": func(x *Exec, fr *frame, fn *ssa.Function, a []Value) Value {
			sv, buf := builderBuf(x, a[0])
			s := bytesOf(a[1])
			add := make([]Value, len(s))
			for i, t := range s {
				add[i] = t
			}
			sv[1] = x.appendVals(buf, add)
			return Tuple{x.ts.BV(64, uint64(len(s))), Iface{}}
		},
		"(*strings.Builder).WriteByte": func(x *Exec, fr *frame, fn *ssa.Function, a []Value) Value {
			sv, buf := builderBuf(x, a[0])
			sv[1] = x.appendVals(buf, []Value{a[1]})
			return Iface{}
		},
		"(*strings.Builder).WriteRune": func(x *Exec, fr *frame, fn *ssa.Function, a []Value) Value {
			sv, buf := builderBuf(x, a[0])
			r := a[1].(*Term)
			if !x.branch(x.ts.Cmp(OULt, r, x.ts.BV(32, 0x80)), "utf8-ascii") {
				if !r.IsConst() {
					x.unsupported("model limit: symbolic non-ASCII rune in Builder.WriteRune")
				}
				bs := []byte(string(rune(r.SVal())))
				var add []Value
				for _, b := range bs {
					add = append(add, x.ts.BV(8, uint64(b)))
				}
				sv[1] = x.appendVals(buf, add)
				return Tuple{x.ts.BV(64, uint64(len(bs))), Iface{}}
			}
			sv[1] = x.appendVals(buf, []Value{x.ts.Trunc(r, 8)})
			return Tuple{x.ts.BV(64, 1), Iface{}}
		},
		"(*strings.Builder).String": func(x *Exec, fr *frame, fn *ssa.Function, a []Value) Value {
			_, buf := builderBuf(x, a[0])
			return Str{bytesOf(buf)}
		},
		"(*strings.Builder).Len": func(x *Exec, fr *frame, fn *ssa.Function, a []Value) Value {
			_, buf := builderBuf(x, a[0])
			return x.ts.BV(64, uint64(buf.Len))
		},
		"(*strings.Builder).Reset": func(x *Exec, fr *frame, fn *ssa.Function, a []Value) Value {
			sv, _ := builderBuf(x, a[0])
			sv[1] = Slice{}
			return nil
		},
		"(*strings.Builder).Grow": func(x *Exec, fr *frame, fn *ssa.Function, a []Value) Value { return nil },
		"regexp.MustCompile#off": func(x *Exec, fr *frame, fn *ssa.Function, a []Value) Value {
			return RegexpV{cstr(x, a[0], "regexp pattern")}
		},
		"(*regexp.Regexp).ReplaceAll#off": func(x *Exec, fr *frame, fn *ssa.Function, a []Value) Value {
			re, ok := a[0].(RegexpV)
			if !ok || re.Pattern != `>[\n\t\r ]*<` {
				x.unsupported("regexp pattern not modelled")
			}
			_, f := x.eng.findHarness("vRegexpGtWsLt")
			if f == nil {
				x.unsupported("prelude model vRegexpGtWsLt missing")
			}
			return x.callFunction(f, []Value{a[1], a[2]}, nil)
		},
	}
	for k, v := range bm {
		models[k] = v
	}
}
