package mxj

// Symbolic XML document trees: generator, renderer (tree -> bytes handed to the real
// decoder) and the reference decoder (tree -> Map) written from the documented
// conventions (DESIGN.md Appendix A.8), not from the streaming implementation.

type vXElem struct {
	prefix string // namespace prefix or ""
	name   string // local name
	attrs  [][2]string
	items  []vXItem
	empty  bool // render as <a/> when there is no content
}

type vXItem struct {
	kind int // 0 element, 1 text, 2 cdata, 3 comment, 4 procinst, 5 blank text
	el   *vXElem
	text string
}

type vTreeSpec struct {
	depth     int
	maxKids   int
	maxAttrs  int
	nameAlpha string
	nameMax   int
	attrAlpha string
	textAlpha string
	textMax   int
	ignorable bool // comments, PIs, blank runs between children
	prefixes  bool // namespace prefixes on elements
	cdata     bool
	valMin    int
	suffixes  []string // optional name suffixes (e.g. "-b") chosen after the first byte
}

func vNondetElem(s vTreeSpec, depth int) *vXElem {
	e := &vXElem{}
	e.name = vNondetString(1, 1, s.nameAlpha)
	if len(s.suffixes) > 0 {
		if k := vChoose(len(s.suffixes) + 1); k > 0 {
			e.name += s.suffixes[k-1]
		}
	}
	if s.prefixes && vChoose(2) == 1 {
		e.prefix = "p"
	}
	na := 0
	if s.maxAttrs > 0 {
		na = vChoose(s.maxAttrs + 1)
	}
	for i := 0; i < na; i++ {
		an := vNondetString(1, 1, s.attrAlpha)
		if len(s.suffixes) > 0 {
			if k := vChoose(len(s.suffixes) + 1); k > 0 {
				an += s.suffixes[k-1]
			}
		}
		av := vNondetString(s.valMin, s.textMax, s.textAlpha)
		for _, p := range e.attrs {
			vAssume(p[0] != an) // well-formed: attribute names are unique
		}
		e.attrs = append(e.attrs, [2]string{an, av})
	}
	nk := 0
	if depth > 0 && s.maxKids > 0 {
		nk = vChoose(s.maxKids + 1)
	}
	// text position: none, before the children, or (no children) alone
	hasText := vChoose(2) == 1
	if hasText {
		k := 1
		if s.cdata && vChoose(2) == 1 {
			k = 2
		}
		e.items = append(e.items, vXItem{kind: k, text: vNondetString(1, s.textMax, s.textAlpha)})
	}
	for i := 0; i < nk; i++ {
		if s.ignorable {
			switch vChoose(4) {
			case 1:
				e.items = append(e.items, vXItem{kind: 3, text: "c"})
			case 2:
				e.items = append(e.items, vXItem{kind: 4, text: "pi x"})
			case 3:
				e.items = append(e.items, vXItem{kind: 5, text: "\n  "})
			}
		}
		e.items = append(e.items, vXItem{kind: 0, el: vNondetElem(s, depth-1)})
	}
	if len(e.items) == 0 {
		e.empty = vChoose(2) == 1
	}
	return e
}

func vEscText(s string, attr bool) string {
	r := ""
	for i := 0; i < len(s); i++ {
		switch c := s[i]; c {
		case '&':
			r += "&amp;"
		case '<':
			r += "&lt;"
		case '>':
			r += "&gt;"
		case '"':
			r += "&quot;"
		case '\'':
			r += "&apos;"
		case '\n':
			if attr {
				r += "&#xA;"
			} else {
				r += "\n"
			}
		case '\t':
			if attr {
				r += "&#x9;"
			} else {
				r += "\t"
			}
		default:
			r += string([]byte{c})
		}
	}
	return r
}

func vRenderElem(e *vXElem) string {
	tag := e.name
	if e.prefix != "" {
		tag = e.prefix + ":" + e.name
	}
	r := "<" + tag
	for _, a := range e.attrs {
		r += " " + a[0] + "=\"" + vEscText(a[1], true) + "\""
	}
	if len(e.items) == 0 && e.empty {
		return r + "/>"
	}
	r += ">"
	for _, it := range e.items {
		switch it.kind {
		case 0:
			r += vRenderElem(it.el)
		case 1:
			r += vEscText(it.text, false)
		case 2:
			r += "<![CDATA[" + it.text + "]]>"
		case 3:
			r += "<!--" + it.text + "-->"
		case 4:
			r += "<?" + it.text + "?>"
		case 5:
			r += it.text
		}
	}
	return r + "</" + tag + ">"
}

// ---- reference decoder ----

type vDecOpts struct {
	attrPrefix  string
	lower       bool
	snake       bool
	simpleAsMap bool
	keepSpaces  bool
	seq         bool
	escape      bool
	textKey     string
	cast        func(s string, key string) interface{} // nil: leaves stay strings
}

func refFoldKey(k string, o vDecOpts) string {
	if o.snake {
		b := []byte(k)
		for i := range b {
			if b[i] == '-' {
				b[i] = '_'
			}
		}
		k = string(b)
	}
	if o.lower {
		b := []byte(k)
		for i := range b {
			if 'A' <= b[i] && b[i] <= 'Z' {
				b[i] += 'a' - 'A'
			}
		}
		k = string(b)
	}
	return k
}

func refEscape(s string) string {
	r := ""
	for i := 0; i < len(s); i++ {
		switch c := s[i]; c {
		case '&':
			r += "&amp;"
		case '<':
			r += "&lt;"
		case '>':
			r += "&gt;"
		case '"':
			r += "&quot;"
		case '\'':
			r += "&apos;"
		default:
			r += string([]byte{c})
		}
	}
	return r
}

func refTrim(s string, keepSpaces bool) string {
	isTrim := func(c byte) bool {
		return c == '\t' || c == '\r' || c == '\b' || c == '\n' || (c == ' ' && !keepSpaces)
	}
	for len(s) > 0 && isTrim(s[0]) {
		s = s[1:]
	}
	for len(s) > 0 && isTrim(s[len(s)-1]) {
		s = s[:len(s)-1]
	}
	return s
}

type vKV struct {
	k string
	v interface{}
}

// refDecodeElem returns the key and value the conventions prescribe for an element.
// multiText reports more than one non-blank text run (outside the property's domain);
// dupAttr reports attribute keys that collide after folding (outside the domain).
func refDecodeElem(e *vXElem, o vDecOpts) (key string, val interface{}, outside bool) {
	key = refFoldKey(e.name, o)
	var entries []vKV
	for _, a := range e.attrs {
		// the fold applies to prefix+name as a whole
		k := refFoldKey(o.attrPrefix+a[0], o)
		if o.snake && !o.lower {
			// snake folding applies to the name only
			k = o.attrPrefix + refFoldKey(a[0], vDecOpts{snake: true})
		} else if o.snake && o.lower {
			k = refFoldKey(o.attrPrefix+refFoldKey(a[0], vDecOpts{snake: true}), vDecOpts{lower: true})
		}
		v := a[1]
		if o.escape {
			v = refEscape(v)
		}
		for _, p := range entries {
			if p.k == k {
				outside = true
			}
		}
		if o.cast != nil {
			entries = append(entries, vKV{k, o.cast(v, k)})
		} else {
			entries = append(entries, vKV{k, v})
		}
	}
	text := ""
	runs := 0
	seq := 0
	for _, it := range e.items {
		switch it.kind {
		case 0:
			ck, cv, out := refDecodeElem(it.el, o)
			if out {
				outside = true
			}
			if o.seq {
				if cm, ok := cv.(map[string]interface{}); ok {
					cm["_seq"] = seq
				} else {
					cv = map[string]interface{}{o.textKey: cv, "_seq": seq}
				}
				seq++
			}
			entries = append(entries, vKV{ck, cv})
		case 1, 2, 5:
			t := refTrim(it.text, o.keepSpaces)
			if t != "" {
				runs++
				text = t
			}
		}
	}
	if runs > 1 {
		outside = true
	}
	if o.escape {
		text = refEscape(text)
	}
	var textVal interface{} = text
	if len(entries) == 0 {
		if text == "" {
			return key, "", outside
		}
		if o.simpleAsMap {
			if o.cast != nil {
				textVal = o.cast(text, o.textKey)
			}
			return key, map[string]interface{}{o.textKey: textVal}, outside
		}
		if o.cast != nil {
			textVal = o.cast(text, key)
		}
		return key, textVal, outside
	}
	if o.cast != nil {
		textVal = o.cast(text, o.textKey)
	}
	m := map[string]interface{}{}
	for _, p := range entries {
		if old, ok := m[p.k]; ok {
			if l, isList := old.([]interface{}); isList {
				m[p.k] = append(l, p.v)
			} else {
				m[p.k] = []interface{}{old, p.v}
			}
		} else {
			m[p.k] = p.v
		}
	}
	if text != "" {
		if _, clash := m[o.textKey]; clash {
			outside = true
		}
		m[o.textKey] = textVal
	}
	return key, m, outside
}

func init() {
	vUnwrap = func(v interface{}) interface{} {
		switch c := v.(type) {
		case Map:
			return map[string]interface{}(c)
		case MapSeq:
			return map[string]interface{}(c)
		}
		return v
	}
}
