package mxj

import "fmt"

func init() {
	vHarnesses["H_C03_encode"] = H_C03_encode
	vHarnesses["H_C03_encode_deep"] = H_C03_encode_deep
	vHarnesses["H_C03_anyxml"] = H_C03_anyxml
	vHarnesses["H_C03_anyxml_lists"] = H_C03_anyxml_lists
	vHarnesses["H_C03_encode_prefix"] = H_C03_encode_prefix
	vHarnesses["H_C03_empty_text"] = H_C03_empty_text
	vHarnesses["H_C03_roottag"] = H_C03_roottag
}

type vJSpec struct {
	depth, width int
	innerMap     int    // width of maps below the top level
	innerList    int    // width of lists
	scalars      string // s: 1-byte string, e: empty string, n: nil, b: bool, f: float64, i: int
	strAlpha     string
	attrs        bool
}

func vNondetScalar(s vJSpec, nonNil bool) interface{} {
	kinds := s.scalars
	if nonNil {
		k2 := ""
		for i := 0; i < len(kinds); i++ {
			if kinds[i] != 'n' && kinds[i] != 'e' {
				k2 += string(kinds[i])
			}
		}
		kinds = k2
	}
	switch kinds[vChoose(len(kinds))] {
	case 's':
		return vNondetString(1, 1, s.strAlpha)
	case 'e':
		return ""
	case 'n':
		return nil
	case 'b':
		return vNondetBool()
	case 'f':
		return vNondetFloat()
	default:
		return vNondetInt(0, 9)
	}
}

// vNondetJSON draws a JSON-shaped value eagerly (the encoder inspects every node anyway).
func vNondetJSON(s vJSpec, depth int, top bool) interface{} {
	k := 2
	if depth > 0 {
		k = vChoose(3)
	}
	switch k {
	case 0:
		w := s.innerMap
		if top {
			w = s.width
		}
		n := vChoose(w + 1)
		m := make(map[string]interface{}, n)
		for i := 0; i < n; i++ {
			ek := 0
			if s.attrs {
				ek = vChoose(3)
			}
			switch ek {
			case 0:
				key := vNondetString(1, 1, "ab")
				_, dup := m[key]
				vAssume(!dup)
				m[key] = vNondetJSON(s, depth-1, false)
			case 1:
				key := "-" + vNondetString(1, 1, "cd")
				_, dup := m[key]
				vAssume(!dup)
				m[key] = vNondetScalar(s, true)
			default:
				_, dup := m["#text"]
				vAssume(!dup)
				m["#text"] = vNondetScalar(s, true)
			}
		}
		return m
	case 1:
		n := vChoose(s.innerList + 1)
		l := make([]interface{}, n)
		for i := range l {
			l[i] = vNondetJSON(s, depth-1, false)
		}
		return l
	default:
		return vNondetScalar(s, false)
	}
}

// refTreeOf: the document tree the statement prescribes for (tag, value); a list value
// yields one element per member (nested lists flattened), an empty list one empty element.
func refTreesOf(tag string, v interface{}) []*vXElem {
	switch c := v.(type) {
	case Map: // a value of the named type is a map like any other
		return refTreesOf(tag, map[string]interface{}(c))
	case []interface{}:
		if len(c) == 0 {
			return []*vXElem{{name: tag}}
		}
		var out []*vXElem
		for _, mem := range c {
			out = append(out, refTreesOf(tag, mem)...)
		}
		return out
	case map[string]interface{}:
		e := &vXElem{name: tag}
		// text first (position is irrelevant for the decoded Map), then children
		if t, ok := c["#text"]; ok {
			e.items = append(e.items, vXItem{kind: 1, text: fmt.Sprintf("%v", t)})
		}
		for k, cv := range c {
			if k == "#text" {
				continue
			}
			if len(k) > 1 && k[0] == '-' {
				e.attrs = append(e.attrs, [2]string{k[1:], fmt.Sprintf("%v", cv)})
				continue
			}
			for _, ch := range refTreesOf(k, cv) {
				e.items = append(e.items, vXItem{kind: 0, el: ch})
			}
		}
		return []*vXElem{e}
	case nil:
		return []*vXElem{{name: tag}}
	default:
		t := fmt.Sprintf("%v", v)
		if t == "" {
			return []*vXElem{{name: tag}}
		}
		return []*vXElem{{name: tag, items: []vXItem{{kind: 1, text: t}}}}
	}
}

func vC03check(x []byte, xerr error, root *vXElem) {
	vAssert(xerr == nil, "encode: a JSON-shaped value encodes without error")
	vAssert(vSingleRoot(x), "encode: the output is well formed with exactly one root")
	o := vDecOpts{attrPrefix: "-", textKey: "#text"}
	wantKey, wantVal, outside := refDecodeElem(root, o)
	vAssume(!outside)
	m2, derr := NewMapXml(x)
	vAssert(derr == nil, "encode: the output decodes")
	got, has := m2[wantKey]
	vAssert(has && len(m2) == 1, "encode: the root is the single key or the default/explicit root tag")
	vAssert(vDeepEq(got, wantVal), "encode: decoding the output returns the same keys, nesting, list order, attributes and text")
}

func vC03(s vJSpec) {
	vResetDecOpts()
	XMLEscapeChars(true)
	n := vChoose(s.width + 1)
	m := make(map[string]interface{}, n)
	for i := 0; i < n; i++ {
		key := vNondetString(1, 1, "ab")
		_, dup := m[key]
		vAssume(!dup)
		m[key] = vNondetJSON(s, s.depth-1, false)
	}
	var root *vXElem
	explicit := vChoose(2) == 1
	if explicit {
		root = refTreesOf("rt", m)[0]
		vCover("explicit-root")
	} else if len(m) == 1 {
		var k string
		var v interface{}
		for k, v = range m {
		}
		_, isList := v.([]interface{})
		vAssume(!isList) // a one-key map holding a list is outside the quantifier
		root = refTreesOf(k, v)[0]
		vCover("single-key-root")
	} else {
		root = refTreesOf("doc", m)[0]
		vCover("default-root")
	}
	var x []byte
	var err error
	indent := vChoose(2) == 1
	switch {
	case explicit && indent:
		x, err = Map(m).XmlIndent("", " ", "rt")
	case explicit:
		x, err = Map(m).Xml("rt")
	case indent:
		x, err = Map(m).XmlIndent("", " ")
	default:
		x, err = Map(m).Xml()
	}
	vC03check(x, err, root)
	XMLEscapeChars(false)
}

func H_C03_encode() {
	s := vJSpec{depth: vP("depth", 2, 2), width: vP("width", 2, 2), innerMap: vP("map", 2, 2), innerList: vP("list", 2, 2), scalars: []string{"sn", "senbf"}[vP("rich", 0, 1)], strAlpha: []string{"x<", "x<&"}[vP("rich", 0, 1)], attrs: true}
	vC03(s)
}

func H_C03_encode_deep() {
	s := vJSpec{depth: vP("depth", 4, 6), width: 1, innerMap: 1, innerList: 1, scalars: []string{"senbf", "senbfi"}[vP("rich", 0, 1)], strAlpha: "x<", attrs: true}
	vC03(s)
}

// AnyXml / AnyXmlIndent on arbitrary values
func H_C03_anyxml() {
	vResetDecOpts()
	XMLEscapeChars(true)
	s := vJSpec{depth: vP("depth", 2, 2), width: vP("width", 2, 2), innerMap: vP("map", 1, 2), innerList: vP("list", 2, 2), scalars: []string{"snb", "senbfi"}[vP("rich", 0, 1)], strAlpha: "x<", attrs: vP("attrs", 0, 1) == 1}
	v := vNondetJSON(s, s.depth, true)
	var root *vXElem
	rt := "doc"
	var tags []string
	if vChoose(2) == 1 {
		rt = "rt"
		tags = []string{"rt"}
	}
	switch c := v.(type) {
	case []interface{}:
		root = &vXElem{name: rt}
		for _, mem := range c {
			if mm, ok := mem.(map[string]interface{}); ok && len(mm) == 1 {
				for k, cv := range mm {
					vAssume(k != "#text" && k[0] != '-')
					for _, ch := range refTreesOf(k, cv) {
						root.items = append(root.items, vXItem{kind: 0, el: ch})
					}
				}
			} else {
				for _, ch := range refTreesOf("element", mem) {
					root.items = append(root.items, vXItem{kind: 0, el: ch})
				}
			}
		}
		vCover("list")
	default:
		root = refTreesOf(rt, v)[0]
		vCover("other")
	}
	var x []byte
	var err error
	if vChoose(2) == 1 {
		x, err = AnyXmlIndent(v, "", " ", tags...)
	} else {
		x, err = AnyXml(v, tags...)
	}
	vC03check(x, err, root)
	XMLEscapeChars(false)
}

// AnyXml on a list whose members are one-key maps that hold lists, scalars or maps
func H_C03_anyxml_lists() {
	vResetDecOpts()
	XMLEscapeChars(true)
	n := 1 + vChoose(2)
	var v []interface{}
	root := &vXElem{name: "doc"}
	for i := 0; i < n; i++ {
		k := vNondetString(1, 1, "ab")
		var val interface{}
		switch vChoose(7) {
		case 0:
			val = []interface{}{vNondetString(1, 1, "x<"), "y"}
		case 1:
			val = []interface{}{map[string]interface{}{"c": "1"}, "z"}
		case 2:
			val = []interface{}{}
		case 4:
			val = Map{} // an empty map of the named type: an empty element
		case 5:
			val = []interface{}{Map{}, map[string]interface{}{}, Map{"c": "1"}, "w"}
		default:
			val = vNondetString(1, 1, "x<")
		}
		v = append(v, map[string]interface{}{k: val})
		for _, ch := range refTreesOf(k, val) {
			root.items = append(root.items, vXItem{kind: 0, el: ch})
		}
	}
	var x []byte
	var err error
	if vChoose(2) == 1 {
		x, err = AnyXmlIndent(v, "", " ")
	} else {
		x, err = AnyXml(v)
	}
	vC03check(x, err, root)
	XMLEscapeChars(false)
	vCover("lists")
}

// encoding under a non-default attribute prefix that is itself a name character: keys that
// equal the prefix, start with it, end with it or repeat it
func H_C03_encode_prefix() {
	vResetDecOpts()
	if vChoose(2) == 1 {
		XmlGoEmptyElemSyntax()
		defer XmlDefaultEmptyElemSyntax()
	}
	XMLEscapeChars(true)
	defer XMLEscapeChars(false)
	p := []string{"_", "a", ""}[vChoose(3)]
	SetAttrPrefix(p)
	inner := map[string]interface{}{}
	n := 1 + vChoose(vP("keys", 2, 3))
	for i := 0; i < n; i++ {
		k := vNondetString(1, 2, "_a")
		_, dup := inner[k]
		vAssume(!dup)
		inner[k] = vNondetString(1, 1, "x%&") // per cent signs and ampersands: values are data, never format strings
		if i == 0 && vChoose(3) == 0 {
			inner[k] = []string{"&amp;", "a&lt;b%", "&quot;q&quot;"}[vChoose(3)] // text that looks like an entity is data too
		}
	}
	m := Map{"r": inner}
	var x []byte
	var err error
	switch vChoose(4) {
	case 0:
		x, err = m.Xml()
	case 1:
		x, err = m.XmlIndent("", " ")
	case 2:
		x, err = AnyXml(inner, "r")
	default:
		x, err = AnyXmlIndent(inner, "", " ", "r")
	}
	vAssert(err == nil, "encode(prefix): a Map of strings encodes without error")
	m2, derr := NewMapXml(x)
	SetAttrPrefix("-")
	vAssert(derr == nil && vSingleRoot(x), "encode(prefix): the output is well formed")
	vAssert(len(m2) == 1 && vDeepEq(m2["r"], inner), "encode(prefix): every entry comes back - as an attribute if its key is longer than the prefix and starts with it, else as a child element")
	vCover("prefix")
}

// an empty text entry beside attributes or children: an empty element, nothing else lost
func H_C03_empty_text() {
	vResetDecOpts()
	if vChoose(2) == 1 {
		XmlGoEmptyElemSyntax()
	}
	inner := map[string]interface{}{"#text": ""}
	want := map[string]interface{}{}
	switch vChoose(4) {
	case 1:
		delete(inner, "#text") // attributes and children only
	case 2: // a number or boolean as text beside attributes / children: rendered as its text
		inner["#text"], want["#text"] = 7.5, "7.5"
	case 3:
		inner["#text"], want["#text"] = true, "true"
	}
	if vChoose(2) == 1 {
		v := vNondetString(1, 1, "12")
		inner["-id"], want["-id"] = v, v
	}
	if vChoose(2) == 1 {
		inner["k"], want["k"] = "x", "x"
	}
	m := Map{"r": map[string]interface{}{"item": inner, "z": "1"}}
	var x []byte
	var err error
	if vChoose(2) == 1 {
		x, err = m.XmlIndent("", " ")
	} else {
		x, err = m.Xml()
	}
	XmlDefaultEmptyElemSyntax()
	vAssert(err == nil, "empty text: encodes")
	vAssert(vSingleRoot(x), "empty text: the output is well formed with exactly one root")
	m2, derr := NewMapXml(x)
	vAssert(derr == nil, "empty text: the output decodes")
	r, _ := m2["r"].(map[string]interface{})
	vAssert(r != nil && r["z"] == "1", "empty text: siblings are kept")
	if len(want) == 0 {
		vAssert(r["item"] == "", "empty text: an element with nothing but an empty text is an empty element")
	} else if t, has := want["#text"]; has && len(want) == 1 {
		vAssert(r["item"] == t, "empty text: a scalar text alone is the element's value, rendered as its text")
	} else {
		vAssert(vDeepEq(r["item"], want), "empty text: attributes, children and non-empty text are kept, an empty text adds nothing")
	}
	vCover("emptytext")
}

// the root tag is added around the value even when the value's single key equals it
func H_C03_roottag() {
	vResetDecOpts()
	XMLEscapeChars(true)
	defer XMLEscapeChars(false)
	tag := []string{"doc", "r"}[vChoose(2)]
	var inner interface{} = map[string]interface{}{"a": vNondetString(1, 1, "xy")}
	if vChoose(2) == 1 {
		inner = vNondetString(1, 1, "xy")
	}
	v := map[string]interface{}{tag: inner}
	var x []byte
	var err error
	switch vChoose(4) {
	case 0:
		x, err = AnyXml(v, tag)
	case 1:
		x, err = AnyXmlIndent(v, "", " ", tag)
	case 2:
		x, err = Map(v).Xml(tag)
	default:
		x, err = Map(v).XmlIndent("", " ", tag)
	}
	vAssert(err == nil && vSingleRoot(x), "root tag: encodes to one document")
	m2, derr := NewMapXml(x)
	vAssert(derr == nil && len(m2) == 1, "root tag: decodes")
	vAssert(vDeepEq(m2[tag], v), "root tag: the explicit root tag wraps the value, also when the value's single key has the same name")
	vCover("roottag")
}
