#!/bin/bash
export VERIF_EVIDENCE_DIR=/tmp/verif-mut-evidence
# usage: evalmut.sh <mutdir> <property> <name>   (mutdir holds patch.diff, demo_test.go, meta.json)
# 1. confirms in a scratch worktree: suite passes with the patch, demo fails with it, demo passes without it
# 2. applies the patch to /repo, runs /verif/check <property> quick (and thorough if QUICK misses and THOROUGH=1), reverts
# 3. files the mutant under /verif/seeded/<name>/ with the outcome in meta.json
set -u
export GOFLAGS=-mod=mod GOPROXY=off GOSUMDB=off GOTOOLCHAIN=local
MD=$1; PROP=$2; NAME=$3
WT=/tmp/evalmut_$$
git -C /repo worktree add -q $WT HEAD || exit 2
place=$(head -1 $MD/demo_test.go | sed -n 's,^// place in: *,,p'); [ -z "$place" ] && place=.
res() { echo "$1"; }
cd $WT
suite_ok=no; demo_fails=no; demo_passes=no
if git apply $MD/patch.diff 2>/tmp/evalmut_err_$$; then
  if go test -vet=off -count=1 . ./j2x ./x2j-wrapper >/tmp/evalmut_suite_$$ 2>&1; then suite_ok=yes; fi
  cp $MD/demo_test.go $WT/$place/zz_demo_test.go
  if ! (cd $WT/$place && go test -vet=off -count=1 -run . . >/tmp/evalmut_demo1_$$ 2>&1); then
     # make sure it is the demo that fails, not a compile error
     if grep -q "^--- FAIL\|panic:" /tmp/evalmut_demo1_$$; then demo_fails=yes; fi
  fi
  rm -f $WT/$place/zz_demo_test.go
  git checkout -q -- .
  cp $MD/demo_test.go $WT/$place/zz_demo_test.go
  if (cd $WT/$place && go test -vet=off -count=1 . >/tmp/evalmut_demo2_$$ 2>&1); then demo_passes=yes; fi
  rm -f $WT/$place/zz_demo_test.go
else
  cat /tmp/evalmut_err_$$
fi
cd /; git -C /repo worktree remove --force $WT
echo "confirm: suite_ok=$suite_ok demo_fails_with_patch=$demo_fails demo_passes_without=$demo_passes"
detected=skipped; how=""
if [ $suite_ok = yes ] && [ $demo_fails = yes ] && [ $demo_passes = yes ]; then
  if git -C /repo apply $MD/patch.diff; then
    out=$(cd /verif && timeout 3000 ./check $PROP quick 2>&1); rc=$?
    git -C /repo checkout -q -- .
    if [ $rc -eq 1 ] && echo "$out" | grep -q "^VIOLATION property=$PROP"; then detected=yes; how=quick
    elif [ $rc -eq 2 ]; then detected=inconclusive; how=quick
    else detected=no; how=quick; fi
    echo "$out" | grep "VIOLATION\|INCONCLUSIVE\|violation reproduced" | head -5
    if [ "$detected" != yes ] && [ "${THOROUGH:-0}" = 1 ]; then
      git -C /repo apply $MD/patch.diff
      out=$(cd /verif && timeout 7200 ./check $PROP thorough 2>&1); rc=$?
      git -C /repo checkout -q -- .
      if [ $rc -eq 1 ] && echo "$out" | grep -q "^VIOLATION property=$PROP"; then detected=yes; how=thorough; fi
    fi
  fi
  mkdir -p /verif/seeded/$NAME
  cp $MD/patch.diff $MD/demo_test.go /verif/seeded/$NAME/
  python3 - "$MD/meta.json" "/verif/seeded/$NAME/meta.json" "$PROP" "$detected" "$how" <<'PY'
import json,sys
src,dst,prop,det,how=sys.argv[1:6]
try: m=json.load(open(src))
except Exception as e: m={"note":"meta.json from the sub-agent was not valid JSON"}
m["property"]=prop
m["confirmed"]={"suite_passes_with_patch":True,"demo_fails_with_patch":True,"demo_passes_without_patch":True,"how":"tools/evalmut.sh in a scratch worktree of /repo HEAD"}
m["detected_by_check"]=det
m["detected_in_tier"]=how
json.dump(m,open(dst,"w"),indent=1)
PY
fi
echo "RESULT $NAME property=$PROP detected=$detected tier=$how"
rm -f /tmp/evalmut_*_$$
