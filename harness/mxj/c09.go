package mxj

func init() {
	vHarnesses["H_C09_enum"] = H_C09_enum
	vHarnesses["H_C09_enum_deep"] = H_C09_enum_deep
	vHarnesses["H_C09_enum_fan"] = H_C09_enum_fan
	vHarnesses["H_C09_resolve"] = H_C09_resolve
	vHarnesses["H_C09_resolve_deep"] = H_C09_resolve_deep
	vHarnesses["H_C09_resolve_long"] = H_C09_resolve_long
}

type vLeafItem struct {
	path     string
	v        interface{}
	emptyKey bool
}

// refLeaves: Appendix A.4. Worklist formulation; returns leaves and whether an empty key was met.
func refLeaves(m map[string]interface{}, noattr bool, prefix, textKey string, dot bool) (paths []string, vals []interface{}, emptyKey bool) {
	work := []vLeafItem{{"", m, false}}
	for len(work) > 0 {
		it := work[0]
		work = work[1:]
		switch c := it.v.(type) {
		case map[string]interface{}:
			for k, v := range c {
				if k == "" {
					emptyKey = true
				}
				if noattr && len(prefix) > 0 && len(k) >= len(prefix) && k[:len(prefix)] == prefix {
					continue
				}
				p := it.path
				_, isMap := v.(map[string]interface{})
				_, isList := v.([]interface{})
				_, _ = isMap, isList
				if noattr && k == textKey {
					// final text-key segment omitted
				} else if p == "" {
					p = k
				} else {
					p = p + "." + k
				}
				work = append(work, vLeafItem{p, v, false})
			}
		case []interface{}:
			for i, v := range c {
				p := it.path
				if dot {
					if p != "" {
						p += "."
					}
					p += m_strconv_Itoa(i)
				} else {
					p += "[" + m_strconv_Itoa(i) + "]"
				}
				work = append(work, vLeafItem{p, v, false})
			}
		default:
			paths = append(paths, it.path)
			vals = append(vals, it.v)
		}
	}
	return
}

func vC09enum(spec vSpec) {
	m := vNondetMap(spec)
	tk := "#text"
	if vChoose(2) == 1 {
		tk = []string{"#text", "_text"}[vChoose(2)] // the text key follows SetGlobalKeyMapPrefix
		m[tk] = vNondetString(1, 1, "xy")
		if vChoose(3) == 0 {
			m[tk] = []interface{}{"p", vNondetString(1, 1, "xy")} // the text key may hold a list: the segment is dropped all the same
		}
		vCover("textkey")
	}
	SetGlobalKeyMapPrefix(tk[:1])
	noattr := vChoose(2) == 1
	dot := vChoose(2) == 1
	prefix := []string{"-", "", "@", "-@"}[vChoose(4)]
	SetAttrPrefix(prefix)
	LeafUseDotNotation(dot)
	wantP, wantV, emptyKey := refLeaves(m, noattr, prefix, tk, dot)
	mark := vMark(m)
	var ln []LeafNode
	if noattr {
		ln = Map(m).LeafNodes(NoAttributes)
		vCover("noattr")
	} else if vChoose(2) == 1 {
		ln = Map(m).LeafNodes(false)
	} else {
		ln = Map(m).LeafNodes()
	}
	gotV := make([]interface{}, len(ln))
	for i := range ln {
		gotV[i] = ln[i].Value
	}
	vAssert(len(ln) == len(wantV), "leaves: exactly one entry per scalar value (count)")
	vAssert(vSameMultiset(gotV, wantV), "leaves: exactly the scalar values of the Map")
	if !emptyKey {
		// (path, value) pairs as a multiset
		used := make([]bool, len(wantP))
		for i := range ln {
			found := false
			for j := range wantP {
				if !used[j] && ln[i].Path == wantP[j] && vSame(ln[i].Value, wantV[j]) {
					used[j] = true
					found = true
					break
				}
			}
			vAssert(found, "leaves: every entry carries the documented path of its value")
		}
		vCover("paths")
	} else {
		vCover("emptykey")
	}
	// projections for the same option
	var lp []string
	var lv []interface{}
	if noattr {
		lp = Map(m).LeafPaths(NoAttributes)
		lv = Map(m).LeafValues(NoAttributes)
	} else {
		lp = Map(m).LeafPaths()
		lv = Map(m).LeafValues()
	}
	vAssert(len(lp) == len(ln) && len(lv) == len(ln), "projections: LeafPaths/LeafValues have one element per LeafNodes entry for the same option")
	// LeafPaths and LeafValues walk the Map independently: each is compared as a multiset
	usedP := make([]bool, len(ln))
	for i := range lp {
		found := false
		for j := range ln {
			if !usedP[j] && lp[i] == ln[j].Path {
				usedP[j] = true
				found = true
				break
			}
		}
		vAssert(found, "projections: LeafPaths is the path projection of LeafNodes for the same option")
	}
	vAssert(vSameMultiset(lv, gotV), "projections: LeafValues is the value projection of LeafNodes for the same option")
	vAssertUnchangedSince(mark, "leaves: receiver untouched")
	SetGlobalKeyMapPrefix("#")
	SetAttrPrefix("-")
	LeafUseDotNotation(false)
}

func H_C09_enum() {
	d := vP("depth", 2, 3)
	kinds := []string{"mls", "mlsn"}[vP("nil", 0, 1)]
	vC09enum(vSpec{Depth: d, Width: vP("width", 2, 2), Kinds: kinds, KeyAlpha: "a-@", KeyMin: 0, KeyMax: 1, StrAlpha: "x", StrMax: 0})
}

// lists that mix scalars and maps (lists of two members below maps of one entry)
func H_C09_enum_fan() {
	vC09enum(vSpec{Depth: vP("depth", 3, 4), Width: vP("width", 2, 2), MapWidth: 1, Kinds: "mls", KeyAlpha: "a-", KeyMin: 1, KeyMax: 1, StrAlpha: "x", StrMax: 0})
}

func H_C09_enum_deep() {
	d := vP("depth", 4, 6)
	vC09enum(vSpec{Depth: d, Width: 1, Kinds: "mlsn", KeyAlpha: "a-@", KeyMin: 0, KeyMax: 2, StrAlpha: "x", StrMax: 0})
}

// resolution clause: every leaf path is resolved by ValuesForPath to exactly its value
func vC09resolve(spec vSpec) {
	m := vNondetMap(spec)
	ln := Map(m).LeafNodes()
	for i := range ln {
		vs, err := Map(m).ValuesForPath(ln[i].Path)
		vAssert(err == nil, "resolve: leaf path accepted by ValuesForPath")
		vAssert(len(vs) == 1, "resolve: leaf path denotes exactly one value")
		vAssert(vSame(vs[0], ln[i].Value), "resolve: leaf path resolves to the leaf's value")
		vCover("leaf")
	}
	if len(ln) > 2 {
		vCover("several")
	}
}

func H_C09_resolve() {
	d := vP("depth", 3, 4)
	kinds := []string{"mls", "mlsn"}[vP("nil", 0, 1)]
	vC09resolve(vSpec{Depth: d, Width: vP("width", 2, 2), Kinds: kinds, KeyAlpha: "ab", KeyMin: 1, KeyMax: 1, StrAlpha: "x", StrMax: 0, NoListInList: true})
}

func H_C09_resolve_deep() {
	d := vP("depth", 6, 8)
	vC09resolve(vSpec{Depth: d, Width: 1, Kinds: "mlsn", KeyAlpha: "ab", KeyMin: 1, KeyMax: 1, StrAlpha: "x", StrMax: 0, NoListInList: true})
}

// lists with more than ten members: every [N] subscript resolves
func H_C09_resolve_long() {
	n := 9 + vChoose(5) // 9..13 members
	l := make([]interface{}, n)
	for i := range l {
		l[i] = vNondetString(1, 1, "xy")
	}
	m := Map{"a": map[string]interface{}{"l": l}}
	dot := vChoose(2) == 1
	LeafUseDotNotation(dot)
	ln := m.LeafNodes()
	LeafUseDotNotation(false)
	vAssert(len(ln) == n, "resolve(long): one leaf per list member")
	for i := range ln {
		idx := -1
		for j := 0; j < n; j++ {
			want := "a.l[" + m_strconv_Itoa(j) + "]"
			if dot {
				want = "a.l." + m_strconv_Itoa(j)
			}
			if ln[i].Path == want {
				idx = j
			}
		}
		vAssert(idx >= 0 && vSame(ln[i].Value, l[idx]), "resolve(long): the subscript of a list member is its decimal position")
		if !dot {
			vs, err := m.ValuesForPath(ln[i].Path)
			vAssert(err == nil && len(vs) == 1 && vSame(vs[0], ln[i].Value), "resolve(long): the leaf path resolves to the member")
		}
	}
	vCover("long")
}
