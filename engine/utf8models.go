package main

// Engine models of unicode/utf8 on byte-term strings: ASCII bytes are decided through
// their finite domains; concrete multi-byte sequences are decoded for real; a symbolic
// byte that may be >= 0x80 forks, and the non-ASCII side is a model limit.

import (
	"unicode/utf8"

	"golang.org/x/tools/go/ssa"
)

func (x *Exec) decodeAt(b []*Term) (r *Term, n int) {
	ts := x.ts
	if len(b) == 0 {
		return ts.BV(32, uint64(utf8.RuneError)), 0
	}
	c := b[0]
	if c.IsConst() {
		if c.C < 0x80 {
			return ts.BV(32, c.C), 1
		}
		var buf []byte
		for i := 0; i < len(b) && i < 4; i++ {
			if !b[i].IsConst() {
				x.unsupported("model limit: symbolic continuation byte in UTF-8 sequence")
			}
			buf = append(buf, byte(b[i].C))
		}
		rr, nn := utf8.DecodeRune(buf)
		return ts.BV(32, uint64(rr)), nn
	}
	if x.branch(ts.Cmp(OULt, c, ts.BV(8, 0x80)), "utf8-ascii") {
		return ts.ZExt(c, 32), 1
	}
	x.unsupported("model limit: symbolic non-ASCII byte in UTF-8 decoding")
	return nil, 0
}

func bytesOf(v Value) []*Term {
	switch c := v.(type) {
	case Str:
		return c.B
	case Slice:
		out := make([]*Term, c.Len)
		for i := 0; i < c.Len; i++ {
			out[i] = c.A.E[c.Off+i].(*Term)
		}
		return out
	}
	return nil
}

func init() {
	um := map[string]intrinsic{
		"unicode/utf8.DecodeRune": func(x *Exec, fr *frame, fn *ssa.Function, a []Value) Value {
			r, n := x.decodeAt(bytesOf(a[0]))
			return Tuple{r, x.ts.BV(64, uint64(n))}
		},
		"unicode/utf8.DecodeRuneInString": func(x *Exec, fr *frame, fn *ssa.Function, a []Value) Value {
			r, n := x.decodeAt(bytesOf(a[0]))
			return Tuple{r, x.ts.BV(64, uint64(n))}
		},
		"unicode/utf8.DecodeLastRuneInString": func(x *Exec, fr *frame, fn *ssa.Function, a []Value) Value {
			b := bytesOf(a[0])
			if len(b) == 0 {
				return Tuple{x.ts.BV(32, uint64(utf8.RuneError)), x.ts.BV(64, 0)}
			}
			last := b[len(b)-1]
			if last.IsConst() && last.C >= 0x80 {
				cs, ok := Str{b}.Concrete()
				if !ok {
					x.unsupported("model limit: symbolic bytes before a non-ASCII tail")
				}
				r, n := utf8.DecodeLastRuneInString(cs)
				return Tuple{x.ts.BV(32, uint64(r)), x.ts.BV(64, uint64(n))}
			}
			if !last.IsConst() && !x.branch(x.ts.Cmp(OULt, last, x.ts.BV(8, 0x80)), "utf8-ascii") {
				x.unsupported("model limit: symbolic non-ASCII byte in UTF-8 decoding")
			}
			return Tuple{x.ts.ZExt(last, 32), x.ts.BV(64, 1)}
		},
		"unicode/utf8.RuneLen": func(x *Exec, fr *frame, fn *ssa.Function, a []Value) Value {
			r := a[0].(*Term)
			if r.IsConst() {
				return x.ts.BV(64, uint64(int64(utf8.RuneLen(rune(r.SVal())))))
			}
			if x.branch(x.ts.Cmp(OULt, r, x.ts.BV(32, 0x80)), "utf8-ascii") {
				return x.ts.BV(64, 1)
			}
			x.unsupported("model limit: symbolic non-ASCII rune")
			return nil
		},
		"unicode/utf8.ValidString": func(x *Exec, fr *frame, fn *ssa.Function, a []Value) Value {
			return x.validUTF8(bytesOf(a[0]))
		},
		"unicode/utf8.Valid": func(x *Exec, fr *frame, fn *ssa.Function, a []Value) Value {
			return x.validUTF8(bytesOf(a[0]))
		},
		"unicode/utf8.RuneCountInString": func(x *Exec, fr *frame, fn *ssa.Function, a []Value) Value {
			b := bytesOf(a[0])
			n := 0
			for i := 0; i < len(b); {
				_, sz := x.decodeAt(b[i:])
				i += sz
				n++
			}
			return x.ts.BV(64, uint64(n))
		},
		"unicode/utf8.EncodeRune": func(x *Exec, fr *frame, fn *ssa.Function, a []Value) Value {
			dst := a[0].(Slice)
			r := a[1].(*Term)
			if r.IsConst() {
				var buf [4]byte
				n := utf8.EncodeRune(buf[:], rune(r.SVal()))
				if n > dst.Len {
					x.tpanic("index out of range (EncodeRune)")
				}
				for i := 0; i < n; i++ {
					dst.A.E[dst.Off+i] = x.ts.BV(8, uint64(buf[i]))
				}
				return x.ts.BV(64, uint64(n))
			}
			if x.branch(x.ts.Cmp(OULt, r, x.ts.BV(32, 0x80)), "utf8-ascii") {
				if dst.Len < 1 {
					x.tpanic("index out of range (EncodeRune)")
				}
				dst.A.E[dst.Off] = x.ts.Trunc(r, 8)
				return x.ts.BV(64, 1)
			}
			x.unsupported("model limit: symbolic non-ASCII rune")
			return nil
		},
		"unicode/utf8.AppendRune": func(x *Exec, fr *frame, fn *ssa.Function, a []Value) Value {
			dst := a[0].(Slice)
			r := a[1].(*Term)
			if r.IsConst() {
				bs := utf8.AppendRune(nil, rune(r.SVal()))
				var add []Value
				for _, b := range bs {
					add = append(add, x.ts.BV(8, uint64(b)))
				}
				return x.appendVals(dst, add)
			}
			if x.branch(x.ts.Cmp(OULt, r, x.ts.BV(32, 0x80)), "utf8-ascii") {
				return x.appendVals(dst, []Value{x.ts.Trunc(r, 8)})
			}
			x.unsupported("model limit: symbolic non-ASCII rune")
			return nil
		},
	}
	for k, v := range um {
		models[k] = v
	}
}

func (x *Exec) validUTF8(b []*Term) Value {
	for i := 0; i < len(b); {
		c := b[i]
		if c.IsConst() && c.C >= 0x80 {
			var buf []byte
			for j := i; j < len(b) && j < i+4; j++ {
				if !b[j].IsConst() {
					x.unsupported("model limit: symbolic continuation byte in UTF-8 validation")
				}
				buf = append(buf, byte(b[j].C))
			}
			r, n := utf8.DecodeRune(buf)
			if r == utf8.RuneError && n == 1 {
				return x.ts.tFals
			}
			i += n
			continue
		}
		if !c.IsConst() && !x.branch(x.ts.Cmp(OULt, c, x.ts.BV(8, 0x80)), "utf8-ascii") {
			x.unsupported("model limit: symbolic non-ASCII byte in UTF-8 validation")
		}
		i++
	}
	return x.ts.tTrue
}
