package mxj

import "strings"

func init() {
	vHarnesses["H_C11_rename"] = H_C11_rename
}

func vSpecC11f() vSpec {
	return vSpec{Depth: vP("depth", 3, 4), Width: vP("width", 2, 2), Kinds: "mlsn", KeyAlpha: "ab", KeyMin: 1, KeyMax: 1, StrAlpha: "xy", StrMax: 1, NoEmptyList: true}
}

// refParentC11: Appendix A.6 — the parent of a dot path, walking maps only.
func refParentC11(m map[string]interface{}, segs []string) (map[string]interface{}, bool) {
	parent := m
	for i := 0; i < len(segs)-1; i++ {
		v, has := parent[segs[i]]
		if !has {
			return nil, false
		}
		pm, isMap := v.(map[string]interface{})
		if !isMap {
			return nil, false
		}
		parent = pm
	}
	return parent, true
}

func H_C11_rename() {
	m := vNondetMap(vSpecC11f())
	nseg := 1 + vChoose(vP("segs", 3, 4))
	segs := make([]string, nseg)
	for i := range segs {
		segs[i] = vNondetString(1, 1, "abc")
	}
	path := strings.Join(segs, ".")
	name := vNondetString(1, 1, "abc")
	last := segs[nseg-1]

	parent, ok := refParentC11(m, segs)
	exists := false
	var oldVal interface{}
	if ok {
		oldVal, exists = parent[last]
	}
	sibling := false
	if ok {
		_, sibling = parent[name]
	}
	mark := vMark(m)
	err := Map(m).RenameKey(path, name)
	if !ok || !exists || sibling {
		vCover("refuse")
		if err == nil {
			// a path that resolves only through a list is refused as well; anything
			// that is not applied must leave the Map alone
			vAssert(false, "rename: refuses when the path is missing or the sibling exists")
		}
		vAssertUnchangedSince(mark, "rename: refused rename leaves the Map untouched")
		return
	}
	vCover("apply")
	vAssert(err == nil, "rename: applies to an existing key")
	nv, has := parent[name]
	vAssert(has, "rename: new key present")
	vAssert(vSame(nv, oldVal), "rename: value moved unchanged")
	_, still := parent[last]
	vAssert(!still, "rename: old key gone")
	vAssertUnchangedSince(mark, "rename: nothing else changed", vEntry(parent, last), vEntry(parent, name))
}

func init() {
	vHarnesses["H_C11_set"] = H_C11_set
	vHarnesses["H_C11_remove"] = H_C11_remove
}

// vWalkC11 is refParentC11 with the ambiguous region made explicit: listOnWay reports
// that the walk met a list (list transparency makes "the parent" ambiguous there).
func vWalkC11(m map[string]interface{}, segs []string) (parent map[string]interface{}, ok bool, listOnWay bool, scalarParent bool) {
	parent = m
	for i := 0; i < len(segs)-1; i++ {
		v, has := parent[segs[i]]
		if !has {
			return nil, false, false, false
		}
		switch c := v.(type) {
		case map[string]interface{}:
			parent = c
		case []interface{}:
			return nil, false, true, false
		default:
			return nil, false, false, v != nil
		}
	}
	return parent, true, false, false
}

func H_C11_set() {
	m := vNondetMap(vSpecC11f())
	nseg := 1 + vChoose(vP("segs", 3, 4))
	segs := make([]string, nseg)
	for i := range segs {
		segs[i] = vNondetString(1, 1, "abc")
	}
	path := strings.Join(segs, ".")
	last := segs[nseg-1]
	val := vNondetValue(vSpec{Depth: 1, Width: 1, Kinds: "msn", KeyAlpha: "ab", KeyMin: 1, KeyMax: 1, StrAlpha: "xy", StrMax: 1})

	parent, ok, listOnWay, _ := vWalkC11(m, segs)
	vAssume(!listOnWay) // the quantifier ranges over dot-paths through nested maps
	mark := vMark(m)
	err := Map(m).SetValueForPath(val, path)
	if !ok {
		vCover("refuse")
		// error or documented no-op, never a modification
		vAssertUnchangedSince(mark, "set: a set that cannot be applied leaves the Map untouched")
		return
	}
	vCover("apply")
	vAssert(err == nil, "set: applies below a map parent")
	nv, has := parent[last]
	vAssert(has, "set: key present afterwards")
	vAssert(vSame(nv, val), "set: key holds the new value")
	got, gerr := Map(m).ValueForPath(path)
	vAssert(gerr == nil, "set: ValueForPath finds the path afterwards")
	vAssert(vSame(got, val), "set: ValueForPath returns the new value")
	vAssertUnchangedSince(mark, "set: nothing else changed", vEntry(parent, last))
}

func H_C11_remove() {
	m := vNondetMap(vSpecC11f())
	nseg := 1 + vChoose(vP("segs", 3, 4))
	segs := make([]string, nseg)
	for i := range segs {
		segs[i] = vNondetString(1, 1, "abc")
	}
	path := strings.Join(segs, ".")
	last := segs[nseg-1]
	parent, ok := refParentC11(m, segs)
	exists := false
	if ok {
		_, exists = parent[last]
	}
	mark := vMark(m)
	err := Map(m).Remove(path)
	if !ok || !exists {
		vCover("refuse")
		vAssert(err != nil, "remove: a missing path is an error")
		vAssertUnchangedSince(mark, "remove: failed remove leaves the Map untouched")
		return
	}
	vCover("apply")
	vAssert(err == nil, "remove: applies to an existing path")
	_, still := parent[last]
	vAssert(!still, "remove: key gone")
	ex, _ := Map(m).Exists(path)
	vAssert(!ex, "remove: path ceases to exist")
	vAssertUnchangedSince(mark, "remove: nothing else changed", vEntry(parent, last))
}
