package mxj

// Byte-level models of standard-library functions, executed by the symbolic engine in
// place of the real ones (which bottom out in assembly). The engine maps a call to
// pkg.Func onto m_pkg_Func. They are ordinary Go and are differentially tested against
// the real functions natively (models_test.go).

import "errors"

var vErrSyntax = errors.New("invalid syntax")
var vErrRange = errors.New("value out of range")

func vUnsupported(why string) { panic("verif-unsupported: " + why) }

func m_strings_Index(s, sep string) int {
	n := len(sep)
	for i := 0; i+n <= len(s); i++ {
		if s[i:i+n] == sep {
			return i
		}
	}
	return -1
}

func m_strings_IndexByte(s string, c byte) int {
	for i := 0; i < len(s); i++ {
		if s[i] == c {
			return i
		}
	}
	return -1
}

func m_strings_LastIndex(s, sep string) int {
	n := len(sep)
	for i := len(s) - n; i >= 0; i-- {
		if s[i:i+n] == sep {
			return i
		}
	}
	return -1
}

func m_strings_Contains(s, sub string) bool { return m_strings_Index(s, sub) >= 0 }

func m_strings_HasPrefix(s, p string) bool { return len(s) >= len(p) && s[:len(p)] == p }
func m_strings_HasSuffix(s, p string) bool { return len(s) >= len(p) && s[len(s)-len(p):] == p }

func m_strings_Count(s, sep string) int {
	if len(sep) == 0 {
		vUnsupported("strings.Count with empty separator")
	}
	n := 0
	for {
		i := m_strings_Index(s, sep)
		if i < 0 {
			return n
		}
		n++
		s = s[i+len(sep):]
	}
}

func m_strings_Split(s, sep string) []string {
	if sep == "" {
		// explode: ASCII only
		out := make([]string, 0, len(s))
		for i := 0; i < len(s); i++ {
			if s[i] >= 0x80 {
				vUnsupported("strings.Split explode on non-ASCII")
			}
			out = append(out, s[i:i+1])
		}
		return out
	}
	var out []string
	for {
		i := m_strings_Index(s, sep)
		if i < 0 {
			break
		}
		out = append(out, s[:i])
		s = s[i+len(sep):]
	}
	return append(out, s)
}

func m_strings_SplitN(s, sep string, n int) []string {
	if n == 0 {
		return nil
	}
	if n < 0 {
		return m_strings_Split(s, sep)
	}
	if sep == "" {
		vUnsupported("strings.SplitN explode")
	}
	var out []string
	for len(out) < n-1 {
		i := m_strings_Index(s, sep)
		if i < 0 {
			break
		}
		out = append(out, s[:i])
		s = s[i+len(sep):]
	}
	return append(out, s)
}

func m_strings_Join(a []string, sep string) string {
	r := ""
	for i, s := range a {
		if i > 0 {
			r += sep
		}
		r += s
	}
	return r
}

func m_strings_Replace(s, old, new string, n int) string {
	if old == "" {
		vUnsupported("strings.Replace with empty old")
	}
	r := ""
	for n != 0 {
		i := m_strings_Index(s, old)
		if i < 0 {
			break
		}
		r += s[:i] + new
		s = s[i+len(old):]
		n--
	}
	return r + s
}

func m_strings_ReplaceAll(s, old, new string) string { return m_strings_Replace(s, old, new, -1) }

func m_strings_ToLower(s string) string {
	b := make([]byte, len(s))
	for i := 0; i < len(s); i++ {
		c := s[i]
		if c >= 0x80 {
			vUnsupported("strings.ToLower on non-ASCII")
		}
		b[i] = vLowerByte(c)
	}
	return string(b)
}

func m_strings_ToUpper(s string) string {
	b := make([]byte, len(s))
	for i := 0; i < len(s); i++ {
		c := s[i]
		if c >= 0x80 {
			vUnsupported("strings.ToUpper on non-ASCII")
		}
		b[i] = vUpperByte(c)
	}
	return string(b)
}

func vInCutset(c byte, cutset string) bool {
	for i := 0; i < len(cutset); i++ {
		if cutset[i] >= 0x80 {
			vUnsupported("non-ASCII cutset")
		}
		if cutset[i] == c {
			return true
		}
	}
	return false
}

func m_strings_TrimLeft(s, cutset string) string {
	for len(s) > 0 && vInCutset(s[0], cutset) {
		s = s[1:]
	}
	return s
}
func m_strings_TrimRight(s, cutset string) string {
	for len(s) > 0 && vInCutset(s[len(s)-1], cutset) {
		s = s[:len(s)-1]
	}
	return s
}
func m_strings_Trim(s, cutset string) string {
	return m_strings_TrimRight(m_strings_TrimLeft(s, cutset), cutset)
}

// TrimSpace: ASCII white space exactly as unicode.IsSpace restricted to bytes < 0x80;
// for bytes >= 0x80 at either end the real function decodes UTF-8 (U+0085, U+00A0, ...):
// those inputs are a model limit.
func vIsSpaceASCII(c byte) bool {
	return c == ' ' || c == '\t' || c == '\n' || c == '\v' || c == '\f' || c == '\r'
}
func m_strings_TrimSpace(s string) string {
	for len(s) > 0 {
		c := s[0]
		if c >= 0x80 {
			vUnsupported("strings.TrimSpace on non-ASCII edge byte")
		}
		if !vIsSpaceASCII(c) {
			break
		}
		s = s[1:]
	}
	for len(s) > 0 {
		c := s[len(s)-1]
		if c >= 0x80 {
			vUnsupported("strings.TrimSpace on non-ASCII edge byte")
		}
		if !vIsSpaceASCII(c) {
			break
		}
		s = s[:len(s)-1]
	}
	return s
}

func m_strings_EqualFold(a, b string) bool {
	if len(a) != len(b) {
		for i := 0; i < len(a); i++ {
			if a[i] >= 0x80 {
				vUnsupported("EqualFold non-ASCII")
			}
		}
		for i := 0; i < len(b); i++ {
			if b[i] >= 0x80 {
				vUnsupported("EqualFold non-ASCII")
			}
		}
		return false
	}
	return m_strings_ToLower(a) == m_strings_ToLower(b)
}

func m_strings_Repeat(s string, n int) string {
	r := ""
	for i := 0; i < n; i++ {
		r += s
	}
	return r
}

func m_bytes_Equal(a, b []byte) bool { return string(a) == string(b) }

func m_bytes_Index(s, sep []byte) int { return m_strings_Index(string(s), string(sep)) }

func m_bytes_IndexByte(s []byte, c byte) int { return m_strings_IndexByte(string(s), c) }

func m_bytes_Contains(s, sep []byte) bool { return m_strings_Index(string(s), string(sep)) >= 0 }

func m_bytes_Count(s, sep []byte) int { return m_strings_Count(string(s), string(sep)) }

func m_bytes_Replace(s, old, new []byte, n int) []byte {
	return []byte(m_strings_Replace(string(s), string(old), string(new), n))
}
func m_bytes_ReplaceAll(s, old, new []byte) []byte {
	return []byte(m_strings_Replace(string(s), string(old), string(new), -1))
}
func m_bytes_TrimSpace(s []byte) []byte { return []byte(m_strings_TrimSpace(string(s))) }
func m_bytes_HasPrefix(s, p []byte) bool  { return m_strings_HasPrefix(string(s), string(p)) }
func m_bytes_ToLower(s []byte) []byte     { return []byte(m_strings_ToLower(string(s))) }

func m_strconv_Itoa(i int) string {
	if i == 0 {
		return "0"
	}
	neg := i < 0
	u := uint64(i)
	if neg {
		u = -u
	}
	var b [20]byte
	p := len(b)
	for u > 0 {
		p--
		b[p] = byte('0' + u%10)
		u /= 10
	}
	if neg {
		p--
		b[p] = '-'
	}
	return string(b[p:])
}

func m_strconv_ParseBool(str string) (bool, error) {
	switch str {
	case "1", "t", "T", "true", "TRUE", "True":
		return true, nil
	case "0", "f", "F", "false", "FALSE", "False":
		return false, nil
	}
	return false, vErrSyntax
}

// leaf routines that are assembly in the standard library
func m_bytealg_IndexByteString(s string, c byte) int { return m_strings_IndexByte(s, c) }
func m_bytealg_IndexByte(b []byte, c byte) int       { return m_strings_IndexByte(string(b), c) }
func m_bytealg_IndexString(a, b string) int          { return m_strings_Index(a, b) }
func m_bytealg_Index(a, b []byte) int                { return m_strings_Index(string(a), string(b)) }
func m_bytealg_CountString(s string, c byte) int     { return m_strings_Count(s, string([]byte{c})) }
func m_bytealg_Count(b []byte, c byte) int           { return m_strings_Count(string(b), string([]byte{c})) }
func m_bytealg_Equal(a, b []byte) bool               { return string(a) == string(b) }
func m_stringslite_Index(s, substr string) int       { return m_strings_Index(s, substr) }
func m_stringslite_IndexByte(s string, c byte) int   { return m_strings_IndexByte(s, c) }
func m_stringslite_Clone(s string) string            { return s }
func m_strings_Clone(s string) string                { return s }
func m_bytes_Clone(b []byte) []byte {
	if b == nil {
		return nil
	}
	return append([]byte{}, b...)
}
func m_bytes_Cut(s, sep []byte) (before, after []byte, found bool) {
	if i := m_bytes_Index(s, sep); i >= 0 {
		return s[:i], s[i+len(sep):], true
	}
	return s, nil, false
}

// strconv.commonPrefixLenIgnoreCase, with the case fold as a term instead of a branch
// (the real function forks on the case of every byte: 2^8 paths for "infinity").
func m_strconv_commonPrefixLenIgnoreCase(s, prefix string) int {
	n := len(prefix)
	if n > len(s) {
		n = len(s)
	}
	for i := 0; i < n; i++ {
		if vLowerByte(s[i]) != prefix[i] {
			return i
		}
	}
	return n
}

// vRegexpGtWsLt models regexp.MustCompile(`>[\n\t\r ]*<`).ReplaceAll(src, repl):
// leftmost, non-overlapping matches.
func vRegexpGtWsLt(src, repl []byte) []byte {
	var out []byte
	i := 0
	for i < len(src) {
		if src[i] == '>' {
			j := i + 1
			for j < len(src) && (src[j] == '\n' || src[j] == '\t' || src[j] == '\r' || src[j] == ' ') {
				j++
			}
			if j < len(src) && src[j] == '<' {
				out = append(out, repl...)
				i = j + 1
				continue
			}
		}
		out = append(out, src[i])
		i++
	}
	return out
}

func m_bytes_TrimLeft(s []byte, cutset string) []byte {
	for len(s) > 0 && vInCutset(s[0], cutset) {
		s = s[1:]
	}
	if len(s) == 0 {
		return nil
	}
	return s
}
func m_bytes_TrimRight(s []byte, cutset string) []byte {
	for len(s) > 0 && vInCutset(s[len(s)-1], cutset) {
		s = s[:len(s)-1]
	}
	return s
}

// reflect.DeepEqual on the value shapes the library handles (maps, lists, scalars)
func m_reflect_DeepEqual(a, b interface{}) bool { return vDeepEq(a, b) }
