package main

import (
	"go/types"

	"golang.org/x/tools/go/ssa"
)

// ReflectT stands for a reflect.Type; only Kind() is modelled.
type ReflectT struct{ T types.Type }

// ReflectV stands for a reflect.Value; only Kind() is modelled.
type ReflectV struct{ I Iface }

func kindOf(t types.Type) uint64 {
	if t == nil {
		return 0
	}
	switch u := t.Underlying().(type) {
	case *types.Basic:
		switch u.Kind() {
		case types.Bool:
			return 1
		case types.Int:
			return 2
		case types.Int8:
			return 3
		case types.Int16:
			return 4
		case types.Int32:
			return 5
		case types.Int64:
			return 6
		case types.Uint:
			return 7
		case types.Uint8:
			return 8
		case types.Uint16:
			return 9
		case types.Uint32:
			return 10
		case types.Uint64:
			return 11
		case types.Uintptr:
			return 12
		case types.Float32:
			return 13
		case types.Float64:
			return 14
		case types.String:
			return 24
		case types.UnsafePointer:
			return 26
		}
	case *types.Array:
		return 17
	case *types.Chan:
		return 18
	case *types.Signature:
		return 19
	case *types.Interface:
		return 20
	case *types.Map:
		return 21
	case *types.Pointer:
		return 22
	case *types.Slice:
		return 23
	case *types.Struct:
		return 25
	}
	return 0
}

func init() {
	rm := map[string]intrinsic{
		"reflect.ValueOf": func(x *Exec, fr *frame, fn *ssa.Function, a []Value) Value {
			return ReflectV{x.asIface(a[0])}
		},
		"reflect.TypeOf": func(x *Exec, fr *frame, fn *ssa.Function, a []Value) Value {
			return ReflectT{x.asIface(a[0]).T}
		},
		"(reflect.Value).Kind": func(x *Exec, fr *frame, fn *ssa.Function, a []Value) Value {
			rv, ok := a[0].(ReflectV)
			if !ok {
				return x.ts.BV(64, 0)
			}
			return x.ts.BV(64, kindOf(rv.I.T))
		},
		"(reflect.Value).Len": func(x *Exec, fr *frame, fn *ssa.Function, a []Value) Value {
			rv, ok := a[0].(ReflectV)
			if !ok || rv.I.T == nil {
				x.tpanic("reflect: call of reflect.Value.Len on zero Value")
			}
			switch v := rv.I.V.(type) {
			case *MapObj:
				if v == nil {
					return x.ts.BV(64, 0)
				}
				x.forceMapSize(v)
				return x.ts.BV(64, uint64(len(v.Entries)))
			case Slice:
				return x.ts.BV(64, uint64(v.Len))
			case Str:
				return x.ts.BV(64, uint64(len(v.B)))
			case ArrayV:
				return x.ts.BV(64, uint64(len(v)))
			}
			x.tpanic("reflect: call of reflect.Value.Len on a value without a length")
			return nil
		},
		// map walking by reflection (keys of string-keyed maps; the order is the engine's map order)
		"(reflect.Value).MapKeys": func(x *Exec, fr *frame, fn *ssa.Function, a []Value) Value {
			rv, ok := a[0].(ReflectV)
			m, isMap := rv.I.V.(*MapObj)
			if !ok || !isMap {
				x.unsupported("reflect.Value.MapKeys on a value that is not a map")
			}
			if m == nil {
				return Slice{}
			}
			x.forceMapSize(m)
			mt, _ := rv.I.T.Underlying().(*types.Map)
			arr := x.newArr(len(m.Entries))
			for i, e := range m.Entries {
				var kt types.Type = x.eng.stringType
				if mt != nil {
					kt = mt.Key()
				}
				arr.E[i] = ReflectV{Iface{T: kt, V: e.K}}
			}
			return Slice{A: arr, Len: len(m.Entries), Cap: len(m.Entries)}
		},
		"(reflect.Value).MapIndex": func(x *Exec, fr *frame, fn *ssa.Function, a []Value) Value {
			rv, ok := a[0].(ReflectV)
			m, isMap := rv.I.V.(*MapObj)
			kv, ok2 := a[1].(ReflectV)
			if !ok || !isMap || !ok2 {
				x.unsupported("reflect.Value.MapIndex on a value that is not a map")
			}
			v, has := x.mapLookup(m, kv.I.V)
			if !has {
				return ReflectV{}
			}
			mt, _ := rv.I.T.Underlying().(*types.Map)
			if mt != nil {
				if _, isIface := mt.Elem().Underlying().(*types.Interface); !isIface {
					return ReflectV{Iface{T: mt.Elem(), V: v}}
				}
			}
			return ReflectV{x.asIface(v)}
		},
		"(reflect.Value).Interface": func(x *Exec, fr *frame, fn *ssa.Function, a []Value) Value {
			rv, ok := a[0].(ReflectV)
			if !ok || rv.I.T == nil {
				return Iface{}
			}
			return rv.I
		},
		"(reflect.Value).IsZero": func(x *Exec, fr *frame, fn *ssa.Function, a []Value) Value {
			rv, ok := a[0].(ReflectV)
			if !ok || rv.I.T == nil {
				x.tpanic("reflect: call of reflect.Value.IsZero on zero Value")
			}
			ts := x.ts
			switch v := rv.I.V.(type) {
			case *Term:
				switch v.S.K {
				case KBool:
					return ts.Not(v)
				case KFP:
					// +0 only (the bit pattern is compared); -0 is not the zero value for IsZero
					return ts.Eq(v, ts.FP(0))
				default:
					return ts.Eq(v, ts.BV(v.S.W, 0))
				}
			case Str:
				return ts.Bool(len(v.B) == 0)
			case *MapObj:
				return ts.Bool(v == nil)
			case Slice:
				return ts.Bool(v.A == nil)
			case Ptr:
				return ts.Bool(v.C == nil)
			case Iface:
				return ts.Bool(v.T == nil)
			}
			x.unsupported("reflect.Value.IsZero on this kind of value")
			return nil
		},
		// identity of a map, slice or pointer (the allocation serial stands for the address)
		"(reflect.Value).Pointer": func(x *Exec, fr *frame, fn *ssa.Function, a []Value) Value {
			rv, ok := a[0].(ReflectV)
			if !ok {
				x.unsupported("reflect.Value.Pointer on a zero Value")
			}
			switch v := rv.I.V.(type) {
			case *MapObj:
				if v == nil {
					return x.ts.BV(64, 0)
				}
				return x.ts.BV(64, uint64(0x10000+v.Serial))
			case Slice:
				if v.A == nil {
					return x.ts.BV(64, 0)
				}
				return x.ts.BV(64, uint64(0x10000+v.A.Serial)*16+uint64(v.Off))
			}
			x.unsupported("reflect.Value.Pointer on this kind of value")
			return nil
		},
		"(reflect.Value).IsValid": func(x *Exec, fr *frame, fn *ssa.Function, a []Value) Value {
			rv, ok := a[0].(ReflectV)
			return x.ts.Bool(ok && rv.I.T != nil)
		},
	}
	for k, v := range rm {
		models[k] = v
	}
}
