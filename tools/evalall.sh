#!/bin/bash
# evaluates every mutant under /tmp/mut_Cxx_out/m{1,2} that has not been evaluated yet
for d in /tmp/mut_C*_out/m*; do
  [ -f $d/patch.diff ] && [ -f $d/demo_test.go ] || continue
  prop=$(echo $d | sed 's,/tmp/mut_\(C[0-9]*\)_out/.*,\1,'); name=$prop-$(basename $d)
  [ -f $d/.evaluated ] && continue
  THOROUGH=0 /verif/tools/evalmut.sh $d $prop $name >> /tmp/evalall.log 2>&1
  touch $d/.evaluated
done
echo BATCH-DONE >> /tmp/evalall.log
