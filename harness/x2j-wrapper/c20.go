package x2j

import (
	"bytes"
	"strings"

	"github.com/clbanning/mxj/v2"
)

func init() {
	vHarnesses["H_C20_w_paths"] = H_C20_w_paths
	vHarnesses["H_C20_w_shortest"] = H_C20_w_shortest
	vHarnesses["H_C20_w_values"] = H_C20_w_values
	vHarnesses["H_C20_w_doc"] = H_C20_w_doc
}

func vC20spec() vSpec {
	return vSpec{Depth: vP("depth", 2, 3), Width: vP("width", 2, 2), Kinds: []string{"mls", "mlsn"}[vP("nil", 1, 0)], KeyAlpha: "ab-", KeyMin: 1, KeyMax: 1, StrAlpha: "x", StrMax: 0, NoListInList: true}
}

func vSegs(p string) int { return len(strings.Split(p, ".")) }

// the re-implemented breadcrumb walker agrees with the core one
func H_C20_w_paths() {
	spec := vC20spec()
	switch vChoose(3) {
	case 1:
		spec.Depth, spec.Width = spec.Depth+3, 1
	case 2:
		spec.Depth, spec.Width, spec.NoListInList, spec.MapWidth = spec.Depth+2, vP("nestwidth", 1, 2), false, 1 // lists directly inside lists
	}
	m := vNondetMap(spec)
	k := vNondetString(1, 1, "ab")
	got := PathsForKey(m, k)
	want := mxj.Map(m).PathsForKey(k)
	vAssert(len(got) == len(want), "wrapper: PathsForKey returns as many paths as Map.PathsForKey")
	for _, p := range got {
		found := false
		for _, q := range want {
			if p == q {
				found = true
			}
		}
		vAssert(found, "wrapper: every path returned by PathsForKey is one of Map.PathsForKey")
	}
	gs := PathForKeyShortest(m, k)
	ws := mxj.Map(m).PathForKeyShortest(k)
	if len(want) == 0 {
		vAssert(gs == "" && ws == "", "wrapper: shortest path of an absent key is empty")
	} else {
		vAssert(vSegs(gs) == vSegs(ws), "wrapper: PathForKeyShortest has the same number of segments as Map.PathForKeyShortest")
		vCover("found")
	}
	vCover("paths")
}

// refNoAttrWild: the values a path denotes when attribute entries are skipped at wildcard steps
func refNoAttrWild(m map[string]interface{}, keys []string) []interface{} {
	F := []interface{}{interface{}(m)}
	for _, k := range keys {
		var N []interface{}
		for _, x := range F {
			switch c := x.(type) {
			case map[string]interface{}:
				if k == "*" {
					for kk, v := range c {
						if kk[:1] != "-" {
							N = append(N, v)
						}
					}
				} else if v, ok := c[k]; ok {
					N = append(N, v)
				}
			case []interface{}:
				for _, mem := range c {
					mm, isMap := mem.(map[string]interface{})
					if k == "*" {
						if isMap {
							for kk, v := range mm {
								if kk[:1] != "-" {
									N = append(N, v)
								}
							}
						} else {
							N = append(N, mem)
						}
					} else if isMap {
						if v, ok := mm[k]; ok {
							N = append(N, v)
						}
					}
				}
			}
		}
		F = N
	}
	var out []interface{}
	for _, x := range F {
		if l, ok := x.([]interface{}); ok {
			out = append(out, l...)
		} else {
			out = append(out, x)
		}
	}
	return out
}

// the re-implemented path walker agrees with Map.ValuesForPath
func H_C20_w_values() {
	spec := vC20spec()
	m := vNondetMap(spec)
	n := 1 + vChoose(vP("steps", 2, 3))
	keys := make([]string, n)
	for i := range keys {
		if vChoose(3) == 0 {
			keys[i] = "*"
		} else {
			keys[i] = vNondetString(1, 1, "ab-")
		}
	}
	path := strings.Join(keys, ".")
	core, cerr := mxj.Map(m).ValuesForPath(path)
	vAssert(cerr == nil, "wrapper: core accepts the path")
	withAttrs := ValuesFromKeyPath(m, path, true)
	vAssert(vSameMultiset(withAttrs, core), "wrapper: ValuesFromKeyPath(m, p, true) returns the values of Map.ValuesForPath(p)")
	noAttrs := ValuesFromKeyPath(m, path)
	vAssert(vSameMultiset(noAttrs, refNoAttrWild(m, keys)), "wrapper: without getAttrs the result is the same minus values reached through attribute keys at wildcard steps")
	// ValuesAtKeyPath: everything at the level of the last key, if the key is there
	at := ValuesAtKeyPath(m, path, true)
	var level []interface{}
	if n > 1 {
		level = ValuesFromKeyPath(m, strings.Join(keys[:n-1], "."), true)
	} else {
		level = []interface{}{interface{}(m)}
	}
	present := keys[n-1] == "*" && len(level) > 0
	for _, v := range level {
		if vm, ok := v.(map[string]interface{}); ok {
			if _, has := vm[keys[n-1]]; has {
				present = true
			}
		}
	}
	if present {
		vAssert(vSameMultiset(at, level), "wrapper: ValuesAtKeyPath returns everything at the level of the last key")
		vCover("at")
	} else {
		vAssert(len(at) == 0, "wrapper: ValuesAtKeyPath returns nothing when the last key is absent at that level")
	}
	vCover("values")
}

// document and reader wrappers equal decode-then-encode with the same flags
func H_C20_w_doc() {
	k := vNondetString(1, 1, "ab")
	v := vNondetString(1, 1, "x<1t")
	doc := "<r " + k + "=\"1\"><" + k + ">" + strings.Replace(strings.Replace(v, "&", "&amp;", -1), "<", "&lt;", -1) + "</" + k + "><c/></r>"
	recast := vChoose(2) == 1
	want, werr := mxj.NewMapXml([]byte(doc), recast)
	vAssert(werr == nil, "wrapper: the document decodes")
	switch vChoose(6) {
	case 0:
		got, err := DocToMap(doc, recast)
		vAssert(err == nil && vDeepEq(got, map[string]interface{}(want)), "wrapper: DocToMap equals NewMapXml with the same cast flag")
	case 1:
		got, err := DocToJson(doc, recast)
		wj, _ := want.Json()
		vAssert(err == nil && got == string(wj), "wrapper: DocToJson equals NewMapXml then Json")
		gi, err2 := DocToJsonIndent(doc, recast)
		wi, _ := want.JsonIndent("", "  ")
		vAssert(err2 == nil && gi == string(wi), "wrapper: DocToJsonIndent equals NewMapXml then JsonIndent")
	case 2:
		got, err := ToMap(bytes.NewReader([]byte(doc)), recast)
		vAssert(err == nil && vDeepEq(got, map[string]interface{}(want)), "wrapper: ToMap equals NewMapXmlReader with the same cast flag")
		gj, err2 := ToJson(bytes.NewReader([]byte(doc)), recast)
		wj, _ := want.Json(true)
		vAssert(err2 == nil && gj == string(wj), "wrapper: ToJson equals NewMapXmlReader then the (safe) JSON encoding")
	case 3:
		got, err := ByteDocToMap([]byte(doc), recast)
		vAssert(err == nil && vDeepEq(got, map[string]interface{}(want)), "wrapper: ByteDocToMap equals NewMapXml")
		gj, err2 := ByteDocToJson([]byte(doc), recast)
		wj, _ := want.Json()
		vAssert(err2 == nil && gj == string(wj), "wrapper: ByteDocToJson equals NewMapXml then Json")
	case 4:
		got, err := XmlBufferToMap(bytes.NewBuffer([]byte(doc+doc)), recast)
		vAssert(err == nil && vDeepEq(got, map[string]interface{}(want)), "wrapper: XmlBufferToMap decodes the first document like NewMapXmlReader")
		gj, err2 := XmlBufferToJson(bytes.NewBuffer([]byte(doc)), recast)
		wj, _ := want.Json()
		vAssert(err2 == nil && gj == string(wj), "wrapper: XmlBufferToJson equals decode then Json")
	default:
		calls := 0
		ok := true
		err := XmlMsgsFromReader(bytes.NewReader([]byte(doc+"\n"+doc)), func(m map[string]interface{}) bool {
			calls++
			if !vDeepEq(m, map[string]interface{}(want)) {
				ok = false
			}
			return true
		}, func(error) bool { return false }, recast)
		vAssert(err == nil && calls == 2 && ok, "wrapper: XmlMsgsFromReader hands each document's Map to the handler, in order")
	}
	vCover("doc")
}

// shortest path with tag names of different lengths: fewest nodes, not fewest characters
func H_C20_w_shortest() {
	k1 := vNondetString(1, 7, "a")
	k2 := vNondetString(1, 2, "b")
	var deep interface{} = map[string]interface{}{"c": map[string]interface{}{"k": "2"}}
	if vChoose(2) == 1 {
		deep = []interface{}{map[string]interface{}{"c": map[string]interface{}{"k": "2"}}}
	}
	m := map[string]interface{}{k1: map[string]interface{}{"k": "1"}, k2: deep}
	gs := PathForKeyShortest(m, "k")
	ws := mxj.Map(m).PathForKeyShortest("k")
	vAssert(ws == k1+".k", "wrapper: the core shortest path is the one with the fewest nodes")
	vAssert(gs == ws, "wrapper: PathForKeyShortest returns the same path as Map.PathForKeyShortest when the minimum is unique")
	vCover("shortest")
}
