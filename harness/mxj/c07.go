package mxj

func init() {
	vHarnesses["H_C07_values"] = H_C07_values
	vHarnesses["H_C07_values_deep"] = H_C07_values_deep
	vHarnesses["H_C07_values_wild"] = H_C07_values_wild
	vHarnesses["H_C07_values_nested"] = H_C07_values_nested
	vHarnesses["H_C07_values_fan"] = H_C07_values_fan
}

func vC07(spec vSpec, maxSteps int, wildOK bool, idxMax int) {
	m := vNondetMap(spec)
	n := 1 + vChoose(maxSteps)
	steps, path, hasWild := vNondetSteps(n, "ab", wildOK, idxMax)
	want := refDenote(steps, m)
	mark := vMark(m)
	got, err := Map(m).ValuesForPath(path)
	vAssert(err == nil, "values: well-formed path gives no error")
	if hasWild {
		vCover("wild")
		vAssert(vSameMultiset(got, want), "values: exactly the denoted multiset (wildcard path)")
	} else {
		vCover("plain")
		vAssert(vSameList(got, want), "values: exactly the denoted values in list order")
	}
	if len(want) > 0 {
		vCover("nonempty")
	}
	// consistency of the first-value and existence wrappers
	first, ferr := Map(m).ValueForPath(path)
	ex, eerr := Map(m).Exists(path)
	vAssert(eerr == nil, "exists: no error")
	vAssert(ex == (len(got) > 0), "exists: true exactly when values are returned")
	if len(got) == 0 {
		vAssert(ferr == PathNotExistError, "valueforpath: PathNotExistError when nothing matches")
	} else {
		vAssert(ferr == nil, "valueforpath: no error when something matches")
		if !hasWild {
			vAssert(vSame(first, want[0]), "valueforpath: first denoted value")
		}
	}
	vAssertUnchangedSince(mark, "values: receiver untouched")
}

// plain and indexed steps only, shallow-wide
func H_C07_values() {
	vC07(vSpec{Depth: vP("depth", 3, 4), Width: vP("width", 2, 2), Kinds: "mlsn", KeyAlpha: "ab", KeyMin: 1, KeyMax: 1, StrAlpha: "x", StrMax: 1, NoListInList: true}, vP("steps", 3, 4), false, 1)
}

// wildcards included, shallow
func H_C07_values_wild() {
	vC07(vSpec{Depth: vP("depth", 2, 3), Width: vP("width", 2, 2), Kinds: []string{"mls", "mlsn"}[vP("nil", 1, 0)], KeyAlpha: "ab", KeyMin: 1, KeyMax: 1, StrAlpha: "x", StrMax: vP("str", 1, 0), NoListInList: true}, vP("steps", 3, 3), true, 1)
}

// lists nested directly inside lists are in the domain of un-indexed paths
func H_C07_values_nested() {
	d := vP("depth", 3, 4)
	vC07(vSpec{Depth: d, Width: vP("width", 2, 2), MapWidth: 1, Kinds: "mls", KeyAlpha: "ab", KeyMin: 1, KeyMax: 1, StrAlpha: "x", StrMax: 0}, 3, true, -1)
}

// values that fan out after an indexed step (wide lists below narrow maps)
func H_C07_values_fan() {
	d := vP("depth", 5, 6)
	vC07(vSpec{Depth: d, Width: vP("width", 2, 2), MapWidth: 1, Kinds: "mls", KeyAlpha: "a", KeyMin: 1, KeyMax: 1, StrAlpha: "x", StrMax: 0, NoListInList: true}, vP("steps", 4, 4), false, 1)
}

// deep-narrow: two indexed steps separated by plain keys need depth 5
func H_C07_values_deep() {
	vC07(vSpec{Depth: vP("depth", 6, 8), Width: 1, Kinds: "mlsn", KeyAlpha: "ab", KeyMin: 1, KeyMax: 1, StrAlpha: "x", StrMax: 1, NoListInList: true}, vP("steps", 4, 5), true, 1)
}

func init() {
	vHarnesses["H_C07_wide"] = H_C07_wide
}

// H_C07_wide: more matches than the internal initial result capacity (32).
func H_C07_wide() {
	n := []int{31, 32, 33, 40}[vChoose(4)] // around the initial capacity (32)
	l := make([]interface{}, n)
	bm := make(map[string]interface{}, n)
	var bvals []interface{}
	for i := range l {
		l[i] = vNondetString(1, 1, "xy")
		var v interface{} = vNondetString(1, 1, "xy")
		bm["k"+string(rune('A'+i))] = v
		bvals = append(bvals, v)
	}
	inner := map[string]interface{}{"a": l, "b": bm}
	m := map[string]interface{}{"r": []interface{}{inner, map[string]interface{}{"a": "tail"}}}
	got, err := Map(m).ValuesForPath("r.a")
	vAssert(err == nil, "wide: no error")
	want := append(append([]interface{}{}, l...), "tail")
	vAssert(vSameList(got, want), "wide: every list member returned once, in order, beyond the initial capacity")
	got2, err2 := Map(m).ValuesForPath("r.b.*")
	vAssert(err2 == nil, "wide: no error (wildcard)")
	vAssert(vSameMultiset(got2, bvals), "wide: every map entry returned once beyond the initial capacity")
	got3, _ := Map(m).ValuesForPath("r[0].a[" + m_strconv_Itoa(n-1) + "]")
	vAssert(len(got3) == 1 && vSame(got3[0], l[n-1]), "wide: indexed access to the last member")
	// two parents: the second expansion crosses the capacity with values already collected
	half := make([]interface{}, 20)
	for i := range half {
		half[i] = vNondetString(1, 1, "xy")
	}
	two := Map{"p": []interface{}{map[string]interface{}{"a": half}, map[string]interface{}{"a": l}}}
	got5, err5 := two.ValuesForPath("p.a")
	vAssert(err5 == nil && vSameList(got5, append(append([]interface{}{}, half...), l...)), "wide: values of several parents are all returned in order when the total crosses the initial capacity")
	got6, _ := two.ValuesForPath("p.*")
	vAssert(vSameMultiset(got6, append(append([]interface{}{}, half...), l...)), "wide: the same through a wildcard")
	got4, err4 := Map(inner).ValuesForPath("a[" + m_strconv_Itoa(n) + "]")
	vAssert(err4 == nil && len(got4) == 0, "wide: an index one past the end yields nothing")
	vCover("wide")
}
