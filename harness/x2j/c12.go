package x2j

import (
	. "github.com/clbanning/mxj/v2"
)

func init() {
	vHarnesses["H_C12_x2j"] = H_C12_x2j
}

// x2j.XmlNewXml is NewMapXml (values verbatim, no casting), NewMap, Xml
func H_C12_x2j() {
	texts := []string{"1.50", "00712", "T", "x", "1e2", "+5", "true"}
	t1, t2 := texts[vChoose(len(texts))], texts[vChoose(len(texts))]
	doc := []byte("<r n=\"" + t2 + "\"><a>" + t1 + "</a><b><a>" + t2 + "</a></b></r>")
	old := []string{"r.a", "r.b.a", "r.-n", "r.b", "r.z"}[vChoose(5)]
	pair := old + ":" + vNondetString(1, 1, "nm") + []string{"", ".q"}[vChoose(2)]
	got, gerr := XmlNewXml(doc, pair)
	m, _ := NewMapXml(doc)
	nm, nerr := m.NewMap(pair)
	var want []byte
	var werr error
	if nerr == nil {
		want, werr = nm.Xml()
	}
	vAssert((gerr == nil) == (nerr == nil && werr == nil), "x2j newmap: XmlNewXml fails exactly when the composition fails")
	if gerr == nil {
		vAssert(string(got) == string(want), "x2j newmap: XmlNewXml returns NewMapXml, NewMap, Xml with every value verbatim")
	}
	gj, gjerr := XmlNewJson(doc, pair)
	if nerr == nil {
		wj, _ := nm.Json()
		vAssert(gjerr == nil && string(gj) == string(wj), "x2j newmap: XmlNewJson returns NewMapXml, NewMap, Json")
	}
	vCover("x2j")
}
