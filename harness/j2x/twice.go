package j2x

import (
	. "github.com/clbanning/mxj/v2"
)

func init() {
	vHarnesses["H_C20_j2x_twice"] = H_C20_j2x_twice
}

// the JSON wrappers answer for the bytes they are given now: one buffer refilled with another
// document of the same length between two calls
func H_C20_j2x_twice() {
	c1, c2 := vNondetString(1, 1, "AB"), vNondetString(1, 1, "CD")
	buf := []byte("{\"o\":{\"id\":\"" + c1 + "\",\"l\":[\"1\"]}}")
	second := []byte("{\"o\":{\"id\":\"" + c2 + "\",\"l\":[\"2\"]}}")
	which := vChoose(5)
	ask := func(doc []byte) interface{} {
		switch which {
		case 0:
			v, _ := JsonValuesForKeyPath(doc, "o.id")
			return v
		case 1:
			v, _ := JsonLeafValues(doc)
			return v
		case 2:
			v, _ := JsonNewJson(doc, "o.id:n")
			return string(v)
		case 3:
			v, _ := JsonUpdateValsForPath(doc, "id:Z", "o.nope")
			return string(v)
		default:
			v, _ := JsonValuesForKey(doc, "id")
			return v
		}
	}
	core := func(doc []byte) interface{} {
		m, _ := NewMapJson(doc)
		switch which {
		case 0:
			v, _ := m.ValuesForPath("o.id")
			return v
		case 1:
			return m.LeafValues()
		case 2:
			n, _ := m.NewMap("o.id:n")
			j, _ := n.Json()
			return string(j)
		case 3:
			_, _ = m.UpdateValuesForPath("id:Z", "o.nope")
			j, _ := m.Json()
			return string(j)
		default:
			v, _ := m.ValuesForKey("id")
			return v
		}
	}
	same := func(a, b interface{}) bool {
		if sa, ok := a.(string); ok {
			sb, ok2 := b.(string)
			return ok2 && sa == sb
		}
		la, _ := a.([]interface{})
		lb, _ := b.([]interface{})
		return vSameMultisetDeep(la, lb)
	}
	vAssert(same(ask(buf), core(buf)), "j2x twice: the wrapper equals the core composition on the first document")
	copy(buf, second)
	vAssert(same(ask(buf), core(second)), "j2x twice: and on the document that is in the buffer now")
	vAssert(same(ask(buf), core(second)), "j2x twice: and again")
	// three updates of byte-identical input: each result is that of its own call
	doc := []byte("{\"o\":{\"id\":\"" + c1 + "\"}}")
	u1, _ := JsonUpdateValsForPath(doc, "id:Z1", "o.id")
	u2, _ := JsonUpdateValsForPath(doc, "id:Z2", "o.id")
	u3, _ := JsonUpdateValsForPath(doc, "id:Z3", "o.nope")
	w := func(nv, path string) string {
		m, _ := NewMapJson(doc)
		_, _ = m.UpdateValuesForPath(nv, path)
		j, _ := m.Json()
		return string(j)
	}
	vAssert(string(u1) == w("id:Z1", "o.id") && string(u2) == w("id:Z2", "o.id") && string(u3) == w("id:Z3", "o.nope"), "j2x twice: repeated updates of the same bytes each equal the core composition")
	vCover("twice")
}
