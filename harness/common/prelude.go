package mxj

// Harness prelude. Every function whose name starts with "v" is an intrinsic: under the
// symbolic engine (symgo) calls are intercepted by name and these bodies are never run;
// compiled natively (go test -overlay) the bodies below replay a tape produced from a
// solver model against the real package and the real standard library.

import (
	"encoding/json"
	"fmt"
	"io"
	"math"
	"os"
	"reflect"
	"strconv"
	"strings"
)

type vSpec struct {
	Depth, Width   int
	Kinds          string // m l s f b n i ; "" = "mlsfbn"
	KeyAlpha       string
	KeyMin, KeyMax int
	StrAlpha       string
	StrMax         int
	NoListInList   bool
	NoEmptyList    bool
	NoEmptyMap     bool
	StrMin         int
	MapWidth       int // width of maps if > 0 (lists keep Width)
}

type vRef struct {
	M      map[string]interface{}
	K      string
	S      []interface{}
	I      int
	IsElem bool
}

func vEntry(m map[string]interface{}, k string) vRef { return vRef{M: m, K: k} }
func vElem(s []interface{}, i int) vRef              { return vRef{S: s, I: i, IsElem: true} }

type vTapeRec struct {
	K string          `json:"k"`
	V json.RawMessage `json:"v"`
}

type vStop struct{ why string }

var (
	vTape     []vTapeRec
	vPos      int
	vFailures []string
	vLoaded   bool
)

func vLoadTape() {
	if vLoaded {
		return
	}
	vLoaded = true
	p := os.Getenv("VERIF_TAPE")
	if p == "" {
		return
	}
	b, err := os.ReadFile(p)
	if err != nil {
		panic(err)
	}
	var doc struct {
		Tape []vTapeRec `json:"tape"`
	}
	if err := json.Unmarshal(b, &doc); err != nil {
		panic(err)
	}
	vTape = doc.Tape
}

func vResetTape() { vPos = 0; vFailures = nil; vMarks = nil }

// vSetTapeFile loads another tape (batch validation of sampled passing paths).
func vSetTapeFile(p string) {
	os.Setenv("VERIF_TAPE", p)
	vLoaded = false
	vTape = nil
	vLoadTape()
}

func vNext(kind string) json.RawMessage {
	vLoadTape()
	if vPos >= len(vTape) {
		panic(vStop{"tape exhausted at " + kind})
	}
	r := vTape[vPos]
	vPos++
	if r.K != kind {
		panic(vStop{"tape kind mismatch: want " + kind + " have " + r.K})
	}
	return r.V
}

func vChoose(n int) int {
	var v int
	json.Unmarshal(vNext("choose"), &v)
	return v
}
func vNondetBool() bool {
	var v int
	json.Unmarshal(vNext("bool"), &v)
	return v == 1
}
func vNondetByte() byte {
	var v int
	json.Unmarshal(vNext("byte"), &v)
	return byte(v)
}
func vNondetByteIn(alpha string) byte { return vNondetByte() }
func vNondetInt(lo, hi int) int {
	var v int64
	json.Unmarshal(vNext("int"), &v)
	return int(v)
}
func vNondetInt64() int64 {
	var v int64
	json.Unmarshal(vNext("int"), &v)
	return v
}
func vNondetFloat() float64 {
	var s string
	json.Unmarshal(vNext("f64"), &s)
	u, _ := strconv.ParseUint(s, 16, 64)
	return math.Float64frombits(u)
}
func vBytes(raw json.RawMessage) string {
	var bs []int
	json.Unmarshal(raw, &bs)
	b := make([]byte, len(bs))
	for i, v := range bs {
		b[i] = byte(v)
	}
	return string(b)
}
func vNondetString(min, max int, alpha string) string { return vBytes(vNext("str")) }

type vNode struct {
	K    string            `json:"k"`
	Keys []json.RawMessage `json:"keys"`
	Kids []*vNode          `json:"kids"`
	V    json.RawMessage   `json:"v"`
}

func vBuild(n *vNode, s vSpec) interface{} {
	if n == nil {
		return nil
	}
	switch n.K {
	case "m":
		m := make(map[string]interface{}, len(n.Keys))
		for i, k := range n.Keys {
			m[vBytes(k)] = vBuild(n.Kids[i], s)
		}
		return m
	case "l":
		l := make([]interface{}, len(n.Kids))
		for i, k := range n.Kids {
			l[i] = vBuild(k, s)
		}
		return l
	case "s":
		return vBytes(n.V)
	case "f":
		var h string
		json.Unmarshal(n.V, &h)
		u, _ := strconv.ParseUint(h, 16, 64)
		return math.Float64frombits(u)
	case "b":
		var b bool
		json.Unmarshal(n.V, &b)
		return b
	case "i":
		var i int64
		json.Unmarshal(n.V, &i)
		return int(i)
	case "u":
		kinds := s.Kinds
		if kinds == "" {
			kinds = "mlsfbn"
		}
		for _, c := range kinds {
			switch c {
			case 'n':
				return nil
			case 's':
				return ""
			}
		}
		return nil
	}
	return nil
}

func vNondetValue(s vSpec) interface{} {
	var n vNode
	json.Unmarshal(vNext("value"), &n)
	return vBuild(&n, s)
}
func vNondetMap(s vSpec) map[string]interface{} {
	var n vNode
	json.Unmarshal(vNext("value"), &n)
	if n.K != "m" {
		return map[string]interface{}{}
	}
	return vBuild(&n, s).(map[string]interface{})
}

func vAssume(c bool) {
	if !c {
		panic(vStop{"assumption not satisfied by tape"})
	}
}
func vAssert(c bool, label string) {
	if !c {
		vFailures = append(vFailures, label)
		panic(vStop{"assert:" + label})
	}
}
func vCover(label string)                 {}
func vObserve(label string, v interface{}) {}
func vSymbolic() bool                     { return false }
func vKnown(id string) bool               { return os.Getenv("VERIF_KNOWN_"+id) != "" }
func vKnownHit(id string)                 {}
func vStrEq(a, b string) bool             { return a == b }
func vAnd(a, b bool) bool                 { return a && b }
func vOr(a, b bool) bool                  { return a || b }
func vImplies(a, b bool) bool             { return !a || b }
func vExpectPanic(b bool)                 {}
func vOrderAll(b bool)                    {}
// vParam: a size parameter of the harness (second argument: the quick-tier value);
// the thorough tier's values are listed under "params" in checks.json
func vParam(name string, def int) int {
	for _, kv := range strings.Split(os.Getenv("VERIF_PARAMS"), ",") {
		if i := strings.IndexByte(kv, '='); i > 0 && kv[:i] == name {
			n, err := strconv.Atoi(kv[i+1:])
			if err == nil {
				return n
			}
		}
	}
	return def
}

// vP: a size parameter with its quick and thorough values; "params" in checks.json overrides either
func vP(name string, quick, thorough int) int {
	if vTier() == 1 {
		return vParam(name, thorough)
	}
	return vParam(name, quick)
}

func vTier() int {
	if os.Getenv("VERIF_TIER") == "thorough" {
		return 1
	}
	return 0
}

func vCatch(f func()) (panicked bool) {
	defer func() {
		if r := recover(); r != nil {
			if _, ok := r.(vStop); ok {
				panic(r)
			}
			panicked = true
		}
	}()
	f()
	return false
}

// vSame: scalars by value, maps and slices by identity.
func vSame(a, b interface{}) bool {
	if a == nil || b == nil {
		return a == nil && b == nil
	}
	ra, rb := reflect.ValueOf(a), reflect.ValueOf(b)
	if ra.Type() != rb.Type() {
		return false
	}
	switch ra.Kind() {
	case reflect.Map:
		return ra.Pointer() == rb.Pointer()
	case reflect.Slice:
		return ra.Pointer() == rb.Pointer() && ra.Len() == rb.Len()
	case reflect.Func:
		return ra.Pointer() == rb.Pointer()
	}
	return a == b
}

// ---- frame marks (native): shallow snapshots of every map and slice reachable from the roots ----

type vSnapMap struct {
	m    map[string]interface{}
	copy map[string]interface{}
}
type vSnapSlice struct {
	s    []interface{}
	copy []interface{}
}
type vMarkRec struct {
	maps   []vSnapMap
	slices []vSnapSlice
}

var vMarks []*vMarkRec

func vSnapWalk(v interface{}, mk *vMarkRec, seen map[uintptr]bool) {
	v = vUnwrap(v)
	switch c := v.(type) {
	case map[string]interface{}:
		p := reflect.ValueOf(c).Pointer()
		if seen[p] {
			return
		}
		seen[p] = true
		cp := make(map[string]interface{}, len(c))
		for k, e := range c {
			cp[k] = e
		}
		mk.maps = append(mk.maps, vSnapMap{c, cp})
		for _, e := range c {
			vSnapWalk(e, mk, seen)
		}
	case []interface{}:
		if len(c) > 0 {
			p := reflect.ValueOf(c).Pointer()
			if !seen[p] {
				seen[p] = true
				mk.slices = append(mk.slices, vSnapSlice{c, append([]interface{}(nil), c...)})
			}
		}
		for _, e := range c {
			vSnapWalk(e, mk, seen)
		}
	}
}

func vMark(roots ...interface{}) int {
	mk := &vMarkRec{}
	seen := map[uintptr]bool{}
	for _, r := range roots {
		vSnapWalk(r, mk, seen)
	}
	vMarks = append(vMarks, mk)
	return len(vMarks) - 1
}

func vAssertUnchangedSince(mark int, label string, except ...vRef) {
	mk := vMarks[mark]
	excM := func(m map[string]interface{}, k string) bool {
		for _, e := range except {
			if !e.IsElem && e.M != nil && reflect.ValueOf(e.M).Pointer() == reflect.ValueOf(m).Pointer() && e.K == k {
				return true
			}
		}
		return false
	}
	for _, sm := range mk.maps {
		for k, old := range sm.copy {
			if excM(sm.m, k) {
				continue
			}
			cur, ok := sm.m[k]
			if !ok || !vSame(old, cur) {
				vAssert(false, label)
			}
		}
		for k := range sm.m {
			if excM(sm.m, k) {
				continue
			}
			if _, ok := sm.copy[k]; !ok {
				vAssert(false, label)
			}
		}
	}
	for _, ss := range mk.slices {
		for i, old := range ss.copy {
			skip := false
			for _, e := range except {
				if e.IsElem && len(e.S) > 0 && reflect.ValueOf(e.S).Pointer() == reflect.ValueOf(ss.s).Pointer() && e.I == i {
					skip = true
				}
			}
			if !skip && !vSame(old, ss.s[i]) {
				vAssert(false, label)
			}
		}
	}
}

func vAssertGlobalsUnchangedSince(mark int, label string, except ...string) {}

// ---- replay entry ----

var vHarnesses = map[string]func(){}

func vRunReplay(name string) (failures []string, panicMsg string, stop string) {
	h, ok := vHarnesses[name]
	if !ok {
		return nil, "", "unknown harness " + name
	}
	vResetTape()
	defer func() {
		failures = vFailures
		if r := recover(); r != nil {
			if s, ok := r.(vStop); ok {
				stop = s.why
				return
			}
			panicMsg = fmt.Sprint(r)
		}
	}()
	h()
	return
}

// vIdentical: cheap syntactic identity (never forks under the engine); natively vSame.
func vIdentical(a, b interface{}) bool { return vSame(a, b) }

// vSameList: ordered comparison with vSame.
func vSameList(got, want []interface{}) bool {
	if len(got) != len(want) {
		return false
	}
	for i := range got {
		if !vSame(got[i], want[i]) {
			return false
		}
	}
	return true
}

// vSameMultiset: multiset comparison; identical elements are cancelled first (sound by
// the cancellation law), the rest is matched greedily by value (vSame is an equivalence).
func vSameMultiset(got, want []interface{}) bool {
	if len(got) != len(want) {
		return false
	}
	usedG := make([]bool, len(got))
	usedW := make([]bool, len(want))
	for i := range got {
		for j := range want {
			if !usedW[j] && vIdentical(got[i], want[j]) {
				usedG[i], usedW[j] = true, true
				break
			}
		}
	}
	for i := range got {
		if usedG[i] {
			continue
		}
		found := false
		for j := range want {
			if !usedW[j] && vSame(got[i], want[j]) {
				usedW[j] = true
				found = true
				break
			}
		}
		if !found {
			return false
		}
	}
	return true
}

// vLowerByte / vUpperByte: ASCII case mapping without a branch (an if-then-else term under the engine).
func vLowerByte(c byte) byte {
	if 'A' <= c && c <= 'Z' {
		return c + ('a' - 'A')
	}
	return c
}
func vUpperByte(c byte) byte {
	if 'a' <= c && c <= 'z' {
		return c - ('a' - 'A')
	}
	return c
}

// vWriter: an io.Writer sink that records what it is given.
type vWriter struct {
	buf   []byte
	calls int
}

func (w *vWriter) Write(p []byte) (int, error) {
	w.buf = append(w.buf, p...)
	w.calls++
	return len(p), nil
}

// vSchedReader: an io.Reader that delivers its data under an arbitrary schedule permitted
// by the io.Reader contract: any split into reads, the final bytes together with io.EOF
// or before it, and up to zeroBudget interspersed (0, nil) reads. Every decision is a
// vChoose, so a schedule is part of the replay tape.
type vSchedReader struct {
	data       []byte
	pos        int
	zeroBudget int
	eofWithData bool // allow (n>0, io.EOF) on the final read
	reads      int
}

func (r *vSchedReader) Read(p []byte) (int, error) {
	r.reads++
	if r.reads > 4*len(r.data)+64 {
		panic(vStop{"reader polled without bound"})
	}
	rem := len(r.data) - r.pos
	if len(p) == 0 {
		return 0, nil
	}
	if r.zeroBudget > 0 && vChoose(2) == 1 {
		r.zeroBudget--
		return 0, nil
	}
	if rem == 0 {
		return 0, vEOF
	}
	max := len(p)
	if max > rem {
		max = rem
	}
	n := 1
	if max > 1 {
		n = 1 + vChoose(max)
	}
	copy(p, r.data[r.pos:r.pos+n])
	r.pos += n
	if r.pos == len(r.data) && r.eofWithData && vChoose(2) == 1 {
		return n, vEOF
	}
	return n, nil
}

var vEOF = io.EOF

// vConcurrent: natively f runs in two goroutines at once (the replay binary for
// "concurrency:" labels is built with -race); under the engine f is executed once and
// its write footprint is decided.
func vConcurrent(f func()) {
	done := make(chan bool, 2)
	for i := 0; i < 2; i++ {
		go func() {
			defer func() { done <- true }()
			f()
		}()
	}
	<-done
	<-done
}

func vAssertNoWritesSince(mark int, label string) {}

// vShares: do two values share a map or a slice backing array?
func vShares(a, b interface{}) bool {
	seen := map[uintptr]bool{}
	var walk func(v interface{}, record bool) bool
	walk = func(v interface{}, record bool) bool {
		v = vUnwrap(v)
		switch c := v.(type) {
		case map[string]interface{}:
			p := reflect.ValueOf(c).Pointer()
			if record {
				seen[p] = true
			} else if seen[p] {
				return true
			}
			for _, e := range c {
				if walk(e, record) {
					return true
				}
			}
		case []interface{}:
			if len(c) > 0 {
				p := reflect.ValueOf(c).Pointer()
				if record {
					seen[p] = true
				} else if seen[p] {
					return true
				}
			}
			for _, e := range c {
				if walk(e, record) {
					return true
				}
			}
		}
		return false
	}
	walk(a, true)
	return walk(b, false)
}

// vTempFile: a scratch file name (a real temporary file natively, an in-memory file under the engine).
func vTempFile(tag string) string {
	f, err := os.CreateTemp("", "verif-"+tag+"-*")
	if err != nil {
		panic(err)
	}
	name := f.Name()
	f.Close()
	return name
}

// vSameMultisetDeep: multiset comparison with structural equality of the members.
func vSameMultisetDeep(got, want []interface{}) bool {
	if len(got) != len(want) {
		return false
	}
	used := make([]bool, len(want))
	for i := range got {
		found := false
		for j := range want {
			if !used[j] && vDeepEq(got[i], want[j]) {
				used[j], found = true, true
				break
			}
		}
		if !found {
			return false
		}
	}
	return true
}

// vUnwrap converts named map types of the package under test (mxj.Map, mxj.MapSeq) to
// map[string]interface{}; set by the package-specific part of the prelude.
var vUnwrap = func(v interface{}) interface{} { return v }

// vDeepEq: structural equality of decoded values (maps, lists, scalars).
func vDeepEq(a, b interface{}) bool {
	a, b = vUnwrap(a), vUnwrap(b)
	switch av := a.(type) {
	case map[string]interface{}:
		bv, ok := b.(map[string]interface{})
		if !ok || len(av) != len(bv) {
			return false
		}
		for k, x := range av {
			y, has := bv[k]
			if !has || !vDeepEq(x, y) {
				return false
			}
		}
		return true
	case []interface{}:
		bv, ok := b.([]interface{})
		if !ok || len(av) != len(bv) {
			return false
		}
		for i := range av {
			if !vDeepEq(av[i], bv[i]) {
				return false
			}
		}
		return true
	}
	return vSame(a, b)
}
