package mxj

import (
	"bytes"
	"encoding/xml"
	"io"
)

func init() {
	vHarnesses["H_C02_roundtrip"] = H_C02_roundtrip
	vHarnesses["H_C02_roundtrip_values"] = H_C02_roundtrip_values
	vHarnesses["H_C02_roundtrip_opts"] = H_C02_roundtrip_opts
	vHarnesses["H_C02_roundtrip_utf8"] = H_C02_roundtrip_utf8
	vHarnesses["H_C02_roundtrip_cast"] = H_C02_roundtrip_cast
	vHarnesses["H_C02_roundtrip_entities"] = H_C02_roundtrip_entities
}

// vSingleRoot: the bytes tokenise (real encoding/xml) as exactly one root element with
// nothing but white space, comments or PIs around it.
func vSingleRoot(b []byte) bool {
	d := xml.NewDecoder(bytes.NewReader(b))
	depth, roots := 0, 0
	for {
		t, err := d.Token()
		if err == io.EOF {
			return depth == 0 && roots == 1
		}
		if err != nil {
			return false
		}
		switch c := t.(type) {
		case xml.StartElement:
			if depth == 0 {
				roots++
			}
			depth++
		case xml.EndElement:
			depth--
		case xml.CharData:
			if depth == 0 {
				for _, ch := range []byte(c) {
					if ch != ' ' && ch != '\n' && ch != '\t' && ch != '\r' {
						return false
					}
				}
			}
		}
	}
}

func vC02(root *vXElem, o vDecOpts, indent bool) {
	vC02cast(root, o, indent, false)
}

func vC02cast(root *vXElem, o vDecOpts, indent bool, cast bool) {
	doc := vRenderElem(root)
	_, _, outside := refDecodeElem(root, o)
	vAssume(!outside)
	vSetDecOpts(o)
	if !o.escape {
		XMLEscapeChars(true)
	}
	m1, err := NewMapXml([]byte(doc), cast)
	vAssert(err == nil, "roundtrip: the document decodes")
	var x []byte
	var xerr error
	if indent {
		x, xerr = m1.XmlIndent("", "  ")
		vCover("indent")
	} else {
		x, xerr = m1.Xml()
		vCover("compact")
	}
	vAssert(xerr == nil, "roundtrip: a decoded Map encodes without error")
	vAssert(vSingleRoot(x), "roundtrip: the re-encoded document is well formed with a single root")
	m2, err2 := NewMapXml(x, cast)
	vAssert(err2 == nil, "roundtrip: the re-encoded document decodes")
	same := vDeepEq(map[string]interface{}(m1), map[string]interface{}(m2))
	if !same && indent && o.keepSpaces && vKnown("C02-indent-keepspaces") {
		// known finding: with DisableTrimWhiteSpace the blanks written by XmlIndent between
		// elements are decoded as text
		vKnownHit("C02-indent-keepspaces")
		vResetDecOpts()
		return
	}
	vAssert(same, "roundtrip: decode(encode(decode(doc))) equals decode(doc)")
	vResetDecOpts()
}

func H_C02_roundtrip() {
	ts := vTreeSpec{depth: vP("depth", 1, 2), maxKids: vP("kids", 2, 2), maxAttrs: vP("attrs", 1, 1), nameAlpha: "ab", attrAlpha: "ab", textAlpha: "x", textMax: 1, valMin: 1}
	root := vNondetElem(ts, ts.depth)
	if vChoose(2) == 1 {
		XmlGoEmptyElemSyntax() // <a></a> instead of <a/>: the same Map comes back
		defer XmlDefaultEmptyElemSyntax()
	}
	vC02(root, vDecOpts{attrPrefix: "-", textKey: "#text"}, vChoose(2) == 1)
}

// values: the five special characters, blanks, tabs, newlines, number and boolean look-alikes
func H_C02_roundtrip_values() {
	alpha := "x <&>\"'\n\t1t"
	n := vP("text", 1, 2)
	kid := &vXElem{name: "k", items: []vXItem{{kind: 1, text: vNondetString(1, n, alpha)}}}
	root := &vXElem{name: "r", attrs: [][2]string{{"a", vNondetString(0, n, alpha)}}}
	switch vChoose(3) {
	case 0:
		root.items = []vXItem{{kind: 1, text: vNondetString(1, n, alpha)}}
	case 1:
		root.items = []vXItem{{kind: 0, el: kid}}
	default:
		root.items = []vXItem{{kind: 1, text: vNondetString(1, n, alpha)}, {kind: 0, el: kid}}
	}
	o := vDecOpts{attrPrefix: "-", textKey: "#text"}
	o.keepSpaces = vNondetBool()
	o.escape = vNondetBool()
	vC02(root, o, vChoose(2) == 1)
}

// symmetric option combinations
func H_C02_roundtrip_opts() {
	o := vDecOpts{textKey: "#text"}
	o.attrPrefix = []string{"-", "@", "at_"}[vChoose(3)]
	o.lower = vNondetBool()
	o.snake = vNondetBool()
	o.simpleAsMap = vNondetBool()
	o.keepSpaces = vNondetBool()
	o.escape = vNondetBool()
	suffix := []string{"", "-c", "c", "-c-d"}[vChoose(4)]
	k1 := &vXElem{name: vNondetString(1, 1, "bB"), items: []vXItem{{kind: 1, text: " x"}}}
	k2 := &vXElem{name: vNondetString(1, 1, "bB") + suffix}
	root := &vXElem{name: "r" + suffix,
		attrs: [][2]string{{vNondetString(1, 1, "cC") + suffix, "&"}},
		items: []vXItem{{kind: 1, text: vNondetString(1, 1, " x&")}, {kind: 0, el: k1}, {kind: 0, el: k2}}}
	vC02(root, o, vChoose(2) == 1)
}

// number and boolean look-alikes with float/bool casting (concrete texts: exact parsing
// and formatting; integer casting is excluded by the property)
func H_C02_roundtrip_cast() {
	texts := []string{"16777217", "0.1", "1e21", "123456789.125", "-0", "1.5", "true", "T", "007", "1e-7", "3.0", "+5", ".5", "0x10", "1_000", "2.50", "100000000000000000000", "NaN", "inf"}
	t1 := texts[vChoose(len(texts))]
	t2 := texts[vChoose(len(texts))]
	kid := &vXElem{name: "k", items: []vXItem{{kind: 1, text: t2}}}
	root := &vXElem{name: "r", attrs: [][2]string{{"a", t1}}, items: []vXItem{{kind: 0, el: kid}, {kind: 0, el: &vXElem{name: "k", items: []vXItem{{kind: 1, text: t1}}}}}}
	if vChoose(3) == 0 {
		// mixed content in an element without attributes: castable text after its children
		mixed := &vXElem{name: "m", items: []vXItem{{kind: 0, el: &vXElem{name: "c"}}, {kind: 1, text: t2}}}
		root = &vXElem{name: "r", items: []vXItem{{kind: 0, el: kid}, {kind: 0, el: mixed}}}
	}
	CastValuesToInt(false)
	CastValuesToFloat(vChoose(2) == 1)
	CastValuesToBool(vChoose(2) == 1)
	vC02cast(root, vDecOpts{attrPrefix: "-", textKey: "#text"}, vChoose(2) == 1, true)
	vResetCastOpts()
}

// values that contain escape sequences as literal text (&amp; &lt; &#x41; ]]> <![CDATA[ ...)
func H_C02_roundtrip_entities() {
	n := vP("pieces", 2, 3)
	v := vNondetSpecial(n)
	vAssume(refTrim(v, false) != "")
	kid := &vXElem{name: "k", items: []vXItem{{kind: 1, text: v}}}
	root := &vXElem{name: "r", attrs: [][2]string{{"a", v}}, items: []vXItem{{kind: 0, el: kid}}}
	o := vDecOpts{attrPrefix: "-", textKey: "#text"}
	o.escape = vNondetBool()
	vC02(root, o, vChoose(2) == 1)
}

// an attribute prefix that is a multi-byte character (concrete names, symbolic ASCII values)
func H_C02_roundtrip_utf8() {
	o := vDecOpts{textKey: "#text"}
	o.attrPrefix = []string{"\u00a7", "@\u00e9", "\u2192"}[vChoose(3)]
	o.simpleAsMap = vNondetBool()
	k1 := &vXElem{name: "b", items: []vXItem{{kind: 1, text: vNondetString(1, 1, "xy")}}}
	root := &vXElem{name: "r", attrs: [][2]string{{"id", vNondetString(1, 1, "12")}}, items: []vXItem{{kind: 0, el: k1}}}
	vC02(root, o, vChoose(2) == 1)
	vCover("utf8")
}
