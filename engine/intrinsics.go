package main

// Harness intrinsics: functions declared in the prelude (with native bodies used for
// replay) that the engine intercepts by name.

import (
	"fmt"
	"go/types"
	"math"
	"strconv"

	"golang.org/x/tools/go/ssa"
)

type intrinsic func(x *Exec, fr *frame, fn *ssa.Function, args []Value) Value

var intrinsics map[string]intrinsic
var models = map[string]intrinsic{}

type markRec struct {
	Seq    int
	Serial int
	Roots  []Value
}

func cstr(x *Exec, v Value, what string) string {
	s, ok := v.(Str).Concrete()
	if !ok {
		x.unsupported("symbolic " + what)
	}
	return s
}

func cint(x *Exec, v Value, what string) int {
	t := v.(*Term)
	if !t.IsConst() {
		x.unsupported("symbolic " + what)
	}
	return int(t.SVal())
}

func cbool(x *Exec, v Value, what string) bool {
	t := v.(*Term)
	if !t.IsConst() {
		x.unsupported("symbolic " + what)
	}
	return t.C == 1
}

func (x *Exec) specOf(v Value) *Spec {
	s := v.(StructV)
	sp := &Spec{
		Depth: cint(x, s[0], "spec"), Width: cint(x, s[1], "spec"), Kinds: cstr(x, s[2], "spec"),
		KeyAlpha: cstr(x, s[3], "spec"), KeyMin: cint(x, s[4], "spec"), KeyMax: cint(x, s[5], "spec"),
		StrAlpha: cstr(x, s[6], "spec"), StrMax: cint(x, s[7], "spec"),
		NoListInList: cbool(x, s[8], "spec"), NoEmptyList: cbool(x, s[9], "spec"), NoEmptyMap: cbool(x, s[10], "spec"),
		StrMin: cint(x, s[11], "spec"), MapWidth: cint(x, s[12], "spec"),
	}
	if sp.Kinds == "" {
		sp.Kinds = "mlsfbn"
	}
	if sp.KeyMax < sp.KeyMin {
		sp.KeyMax = sp.KeyMin
	}
	return sp
}

func init() {
	intrinsics = map[string]intrinsic{
		"vChoose": func(x *Exec, fr *frame, fn *ssa.Function, a []Value) Value {
			n := cint(x, a[0], "vChoose arg")
			r := x.pick("vChoose", n)
			x.tape = append(x.tape, TapeRec{Kind: "choose", N: r})
			return x.ts.BV(64, uint64(r))
		},
		"vNondetBool": func(x *Exec, fr *frame, fn *ssa.Function, a []Value) Value {
			b := x.fresh("b", SBool)
			x.tape = append(x.tape, TapeRec{Kind: "bool", Terms: []*Term{b}})
			return b
		},
		"vNondetByte": func(x *Exec, fr *frame, fn *ssa.Function, a []Value) Value {
			b := x.fresh("c", SBV8)
			x.tape = append(x.tape, TapeRec{Kind: "byte", Terms: []*Term{b}})
			return b
		},
		"vNondetByteIn": func(x *Exec, fr *frame, fn *ssa.Function, a []Value) Value {
			b := x.fresh("c", SBV8)
			x.constrainAlpha(b, cstr(x, a[0], "alphabet"))
			x.tape = append(x.tape, TapeRec{Kind: "byte", Terms: []*Term{b}})
			return b
		},
		"vNondetInt": func(x *Exec, fr *frame, fn *ssa.Function, a []Value) Value {
			lo, hi := cint(x, a[0], "bound"), cint(x, a[1], "bound")
			v := x.fresh("n", SBV64)
			x.addPC(x.ts.Cmp(OSLe, x.ts.BV(64, uint64(int64(lo))), v))
			x.addPC(x.ts.Cmp(OSLe, v, x.ts.BV(64, uint64(int64(hi)))))
			x.tape = append(x.tape, TapeRec{Kind: "int", Terms: []*Term{v}})
			return v
		},
		"vNondetInt64": func(x *Exec, fr *frame, fn *ssa.Function, a []Value) Value {
			v := x.fresh("n", SBV64)
			x.tape = append(x.tape, TapeRec{Kind: "int", Terms: []*Term{v}})
			return v
		},
		"vNondetFloat": func(x *Exec, fr *frame, fn *ssa.Function, a []Value) Value {
			f := x.fresh("f", SFP)
			x.addPC(x.ts.Not(x.ts.FUn(OFIsNaN, f)))
			x.addPC(x.ts.Not(x.ts.FUn(OFIsInf, f)))
			x.tape = append(x.tape, TapeRec{Kind: "f64", Terms: []*Term{f}})
			return f
		},
		"vNondetString": func(x *Exec, fr *frame, fn *ssa.Function, a []Value) Value {
			s := x.symString(cint(x, a[0], "min"), cint(x, a[1], "max"), cstr(x, a[2], "alphabet"), "vstr")
			x.tape = append(x.tape, TapeRec{Kind: "str", Terms: s.B})
			return s
		},
		"vNondetValue": func(x *Exec, fr *frame, fn *ssa.Function, a []Value) Value {
			sp := x.specOf(a[0])
			lz := x.newLazy(sp, sp.Depth, false)
			x.tape = append(x.tape, TapeRec{Kind: "value", Lazy: lz})
			return lz
		},
		"vNondetMap": func(x *Exec, fr *frame, fn *ssa.Function, a []Value) Value {
			sp := x.specOf(a[0])
			lz := x.newLazy(sp, sp.Depth, false)
			// force kind map without a fork
			m := x.newMap(x.eng.mapType)
			m.Lazy = lz
			lz.Map = m
			lz.Birth = m.Serial
			lz.Kind = 'm'
			r := Iface{T: x.eng.mapType, V: m}
			lz.Res = &r
			x.tape = append(x.tape, TapeRec{Kind: "value", Lazy: lz})
			return m
		},
		"vAssume": func(x *Exec, fr *frame, fn *ssa.Function, a []Value) Value {
			x.assume(a[0].(*Term))
			return nil
		},
		"vAssert": func(x *Exec, fr *frame, fn *ssa.Function, a []Value) Value {
			x.assert(a[0].(*Term), cstr(x, a[1], "label"))
			return nil
		},
		"vCover": func(x *Exec, fr *frame, fn *ssa.Function, a []Value) Value {
			x.covers[cstr(x, a[0], "label")] = true
			return nil
		},
		"vObserve": func(x *Exec, fr *frame, fn *ssa.Function, a []Value) Value {
			return nil
		},
		"vUnsupported": func(x *Exec, fr *frame, fn *ssa.Function, a []Value) Value {
			x.unsupported("model limit: " + cstr(x, a[0], "reason"))
			return nil
		},
		"vSymbolic": func(x *Exec, fr *frame, fn *ssa.Function, a []Value) Value {
			return x.ts.tTrue
		},
		"vKnown": func(x *Exec, fr *frame, fn *ssa.Function, a []Value) Value {
			id := cstr(x, a[0], "finding id")
			return x.ts.Bool(x.eng.known[id])
		},
		"vKnownHit": func(x *Exec, fr *frame, fn *ssa.Function, a []Value) Value {
			id := cstr(x, a[0], "finding id")
			x.h.noteKnown(id)
			return nil
		},
		"vSame": func(x *Exec, fr *frame, fn *ssa.Function, a []Value) Value {
			return x.sameVal(a[0], a[1])
		},
		"vIdentical": func(x *Exec, fr *frame, fn *ssa.Function, a []Value) Value {
			return x.ts.Bool(x.identical(a[0], a[1]))
		},
		"vFormatFloatJSON": func(x *Exec, fr *frame, fn *ssa.Function, a []Value) Value {
			f := a[0].(*Term)
			if f.IsConst() {
				return nil2str(x, f)
			}
			return x.symFloatText(f, &x.floatTextsJSON)
		},
		"vLowerByte": func(x *Exec, fr *frame, fn *ssa.Function, a []Value) Value {
			c := a[0].(*Term)
			ts := x.ts
			up := ts.And(ts.Cmp(OULe, ts.BV(8, 'A'), c), ts.Cmp(OULe, c, ts.BV(8, 'Z')))
			return ts.Ite(up, ts.Bin(OAdd, c, ts.BV(8, 32)), c)
		},
		"vUpperByte": func(x *Exec, fr *frame, fn *ssa.Function, a []Value) Value {
			c := a[0].(*Term)
			ts := x.ts
			lo := ts.And(ts.Cmp(OULe, ts.BV(8, 'a'), c), ts.Cmp(OULe, c, ts.BV(8, 'z')))
			return ts.Ite(lo, ts.Bin(OSub, c, ts.BV(8, 32)), c)
		},
		"vStrEq": func(x *Exec, fr *frame, fn *ssa.Function, a []Value) Value {
			return x.ts.StrEq(a[0].(Str), a[1].(Str))
		},
		"vAnd": func(x *Exec, fr *frame, fn *ssa.Function, a []Value) Value {
			return x.ts.And(a[0].(*Term), a[1].(*Term))
		},
		"vOr": func(x *Exec, fr *frame, fn *ssa.Function, a []Value) Value {
			return x.ts.Or(a[0].(*Term), a[1].(*Term))
		},
		"vImplies": func(x *Exec, fr *frame, fn *ssa.Function, a []Value) Value {
			return x.ts.Or(x.ts.Not(a[0].(*Term)), a[1].(*Term))
		},
		"vMark": func(x *Exec, fr *frame, fn *ssa.Function, a []Value) Value {
			x.marks = append(x.marks, markRec{Seq: x.writeSeq, Serial: x.serial, Roots: sliceVals(a[0])})
			return x.ts.BV(64, uint64(len(x.marks)-1))
		},
		"vAssertUnchangedSince": func(x *Exec, fr *frame, fn *ssa.Function, a []Value) Value {
			mk := cint(x, a[0], "mark")
			label := cstr(x, a[1], "label")
			var refs []Value
			if s, ok := a[2].(Slice); ok {
				for i := 0; i < s.Len; i++ {
					refs = append(refs, s.A.E[s.Off+i])
				}
			}
			x.frameCheck(mk, label, refs)
			return nil
		},
		"vAssertGlobalsUnchangedSince": func(x *Exec, fr *frame, fn *ssa.Function, a []Value) Value {
			mk := cint(x, a[0], "mark")
			label := cstr(x, a[1], "label")
			var names []string
			if s, ok := a[2].(Slice); ok {
				for i := 0; i < s.Len; i++ {
					names = append(names, cstr(x, s.A.E[s.Off+i], "global name"))
				}
			}
			x.globalsCheck(mk, label, names)
			return nil
		},
		"vTempFile": func(x *Exec, fr *frame, fn *ssa.Function, a []Value) Value {
			return x.ts.StrOf("/verif-mem/" + cstr(x, a[0], "tag"))
		},
		"vConcurrent": func(x *Exec, fr *frame, fn *ssa.Function, a []Value) Value {
			// the engine decides the footprint of one execution; natively the function is
			// run in two goroutines under the race detector
			x.callValue(a[0], nil, fr)
			return nil
		},
		"vAssertNoWritesSince": func(x *Exec, fr *frame, fn *ssa.Function, a []Value) Value {
			mk := x.marks[cint(x, a[0], "mark")]
			label := cstr(x, a[1], "label")
			x.h.noteAssert(label)
			model := map[interface{}]bool{}
			for g, c := range x.globals {
				if x.eng.isModelGlobal(g) {
					x.reach(*c, model)
				}
			}
			for _, w := range x.writeLog {
				if w.Seq <= mk.Seq {
					continue
				}
				if (w.Kind == "map" && model[w.M]) || (w.Kind == "elem" && model[w.A]) {
					continue // side tables of the stdlib models
				}
				if w.Kind == "global" && x.eng.modelGlobalNames[w.Global] {
					continue
				}
				if w.Kind == "global" || w.Serial <= mk.Serial {
					what := w.Global
					if w.Kind != "global" {
						what = "a " + w.Kind + " object that existed before the operation"
					}
					x.violation("frame", label, "the operation writes "+what, x.pcModel())
				}
			}
			return nil
		},
		"vShares": func(x *Exec, fr *frame, fn *ssa.Function, a []Value) Value {
			ra := map[interface{}]bool{}
			x.reach(a[0], ra)
			rb := map[interface{}]bool{}
			x.reach(a[1], rb)
			for k := range ra {
				if rb[k] {
					return x.ts.tTrue
				}
			}
			return x.ts.tFals
		},
		"vExpectPanic": func(x *Exec, fr *frame, fn *ssa.Function, a []Value) Value {
			x.expectPanic = cbool(x, a[0], "flag")
			return nil
		},
		"vOrderAll": func(x *Exec, fr *frame, fn *ssa.Function, a []Value) Value {
			x.orderAll = cbool(x, a[0], "flag")
			return nil
		},
		// vParam(name, quickDefault): a size parameter of the harness; checks.json may
		// override it per tier ("params"), the native replay receives the same values
		"vParam": func(x *Exec, fr *frame, fn *ssa.Function, a []Value) Value {
			name := cstr(x, a[0], "parameter name")
			def := cint(x, a[1], "parameter default")
			val := def
			if v, ok := x.eng.params[name]; ok {
				val = v
			}
			x.eng.noteParam(name, val, def)
			return x.ts.BV(64, uint64(int64(val)))
		},
		"vTier": func(x *Exec, fr *frame, fn *ssa.Function, a []Value) Value {
			if x.eng.tier == "thorough" {
				return x.ts.BV(64, 1)
			}
			return x.ts.BV(64, 0)
		},
		// vCatch(f) runs f and reports whether it panicked (the panic ends only f).
		"vCatch": func(x *Exec, fr *frame, fn *ssa.Function, a []Value) Value {
			panicked := false
			func() {
				defer func() {
					if r := recover(); r != nil {
						if tp, ok := r.(*targetPanic); ok {
							panicked = true
							x.lastPanic = tp
							return
						}
						panic(r)
					}
				}()
				depth, stack := x.depth, len(x.callStack)
				defer func() { x.depth = depth; x.callStack = x.callStack[:stack] }()
				x.callValue(a[0], nil, fr)
			}()
			return x.ts.Bool(panicked)
		},
	}
}

// sameVal: scalars by value, maps and slices by identity, lazies by identity first.
func (x *Exec) sameVal(a, b Value) *Term {
	ts := x.ts
	if la, ok := a.(*Lazy); ok {
		if lb, ok := b.(*Lazy); ok && la == lb {
			return ts.tTrue
		}
	}
	_, aI := a.(Iface)
	_, aL := a.(*Lazy)
	if !(aI || aL) {
		// non-interface static types
		switch av := a.(type) {
		case *MapObj:
			return ts.Bool(av == b.(*MapObj))
		case Slice:
			bs := b.(Slice)
			return ts.Bool(av.A == bs.A && av.Off == bs.Off && av.Len == bs.Len)
		}
		return x.eqVal(a, b)
	}
	ia, ib := x.asIface(a), x.asIface(b)
	if ia.T == nil || ib.T == nil {
		return ts.Bool(ia.T == nil && ib.T == nil)
	}
	if !types.Identical(ia.T, ib.T) {
		return ts.tFals
	}
	switch av := ia.V.(type) {
	case *MapObj:
		return ts.Bool(av == ib.V.(*MapObj))
	case Slice:
		bs := ib.V.(Slice)
		return ts.Bool(av.A == bs.A && av.Off == bs.Off && av.Len == bs.Len)
	}
	return x.eqVal(ia.V, ib.V)
}

// ---- frame condition: state at mark vs state now ----

type excRef struct {
	M   *MapObj
	K   Str
	A   *Arr
	Idx int
}

func (x *Exec) parseRefs(refs []Value) []excRef {
	var out []excRef
	for _, r := range refs {
		s := r.(StructV) // vRef{M map, K string, S []interface{}, I int, IsElem bool}
		isElem := cbool(x, s[4], "ref")
		if isElem {
			sl := s[2].(Slice)
			out = append(out, excRef{A: sl.A, Idx: sl.Off + cint(x, s[3], "ref index")})
		} else {
			m, _ := s[0].(*MapObj)
			out = append(out, excRef{M: m, K: s[1].(Str)})
		}
	}
	return out
}

func (x *Exec) frameCheck(markIdx int, label string, refs []Value) {
	x.h.noteAssert(label)
	ts := x.ts
	mk := x.marks[markIdx]
	exc := x.parseRefs(refs)
	var maps []*MapObj
	seenM := map[*MapObj]bool{}
	type ak struct {
		a *Arr
		i int
	}
	firstOld := map[ak]Value{}
	var elems []ak
	var inScope map[interface{}]bool
	x.visibleEnd = map[*Arr]int{}
	if len(mk.Roots) > 0 {
		inScope = map[interface{}]bool{}
		for _, r := range mk.Roots {
			x.reach(r, inScope)
		}
	}
	visible := x.visibleEnd
	x.visibleEnd = nil
	for _, w := range x.writeLog {
		if w.Seq <= mk.Seq || w.Serial > mk.Serial {
			continue
		}
		if inScope != nil {
			if (w.Kind == "map" && !inScope[w.M]) || (w.Kind == "elem" && !inScope[w.A]) {
				continue
			}
			if w.Kind == "elem" && w.Idx >= visible[w.A] {
				continue // beyond the length of every slice of the receiver over this array
			}
		}
		switch w.Kind {
		case "map":
			if !seenM[w.M] {
				seenM[w.M] = true
				maps = append(maps, w.M)
			}
		case "elem":
			k := ak{w.A, w.Idx}
			if _, ok := firstOld[k]; !ok {
				firstOld[k] = w.Old
				elems = append(elems, k)
			}
		}
	}
	ob := ts.tTrue
	for _, m := range maps {
		// reconstruct the entry list at mark by undoing the log
		type ent struct {
			e *MapEntry
			v Value
		}
		cur := make([]ent, 0, len(m.Entries))
		for _, e := range m.Entries {
			cur = append(cur, ent{e, e.V})
		}
		for i := len(x.writeLog) - 1; i >= 0; i-- {
			w := x.writeLog[i]
			if w.Kind != "map" || w.M != m || w.Seq <= mk.Seq {
				continue
			}
			switch {
			case w.Del:
				cur = append(cur, ent{w.Entry, w.Old})
			case w.Had:
				for j := range cur {
					if cur[j].e == w.Entry {
						cur[j].v = w.Old
					}
				}
			default:
				for j := range cur {
					if cur[j].e == w.Entry {
						cur = append(cur[:j], cur[j+1:]...)
						break
					}
				}
			}
		}
		excKey := func(k Value) *Term {
			r := ts.tFals
			for _, e := range exc {
				if e.M == m {
					r = ts.Or(r, x.keyEq(k, e.K))
				}
			}
			return r
		}
		// initial entries must survive unchanged
		for _, ie := range cur {
			found := ts.tFals
			for _, fe := range m.Entries {
				if fe == ie.e {
					found = x.sameVal(ie.v, fe.V)
					break
				}
			}
			if found.IsFalse() {
				for _, fe := range m.Entries {
					if fe == ie.e {
						continue
					}
					ke := x.keyEq(ie.e.K, fe.K)
					if ke.IsFalse() {
						continue
					}
					found = ts.Or(found, ts.And(ke, x.sameVal(ie.v, fe.V)))
				}
			}
			ob = ts.And(ob, ts.Or(excKey(ie.e.K), found))
		}
		// final entries must have been there
		for _, fe := range m.Entries {
			found := ts.tFals
			for _, ie := range cur {
				if fe == ie.e {
					found = x.sameVal(ie.v, fe.V)
					break
				}
			}
			if found.IsFalse() {
				for _, ie := range cur {
					if fe == ie.e {
						continue
					}
					ke := x.keyEq(ie.e.K, fe.K)
					if ke.IsFalse() {
						continue
					}
					found = ts.Or(found, ts.And(ke, x.sameVal(ie.v, fe.V)))
				}
			}
			ob = ts.And(ob, ts.Or(excKey(fe.K), found))
		}
	}
	for _, k := range elems {
		excepted := false
		for _, e := range exc {
			if e.A == k.a && e.Idx == k.i {
				excepted = true
			}
		}
		if excepted {
			continue
		}
		ob = ts.And(ob, x.sameVal(firstOld[k], k.a.E[k.i]))
	}
	if ob.IsTrue() {
		return
	}
	r, m := x.checkModel(ts.Not(ob), "frame")
	switch r {
	case "unsat":
		return
	case "sat":
		x.violation("frame", label, "pre-existing structure modified outside the permitted entries", m)
	default:
		panic(abortSig{"unsupported", "solver " + r + " on frame obligation " + label})
	}
}

func (x *Exec) globalsCheck(markIdx int, label string, except []string) {
	x.h.noteAssert(label)
	mk := x.marks[markIdx]
	first := map[string]Value{}
	var order []string
	for _, w := range x.writeLog {
		if w.Kind != "global" || w.Seq <= mk.Seq {
			continue
		}
		if _, ok := first[w.Global]; !ok {
			first[w.Global] = w.Old
			order = append(order, w.Global)
		}
	}
	ob := x.ts.tTrue
	for _, name := range order {
		skip := false
		for _, e := range except {
			if e == name || "github.com/clbanning/mxj/v2."+e == name {
				skip = true
			}
		}
		if skip {
			continue
		}
		var cur Value
		for g, c := range x.globals {
			if g.Pkg.Pkg.Path()+"."+g.Name() == name {
				cur = *c
			}
		}
		ob = x.ts.And(ob, x.eqValLoose(first[name], cur))
	}
	if ob.IsTrue() {
		return
	}
	r, m := x.checkModel(x.ts.Not(ob), "frame")
	switch r {
	case "unsat":
	case "sat":
		x.violation("frame", label, "package-level variable modified", m)
	default:
		panic(abortSig{"unsupported", "solver " + r + " on globals obligation " + label})
	}
}

// eqValLoose compares two values of the same static type; funcs by identity.
func (x *Exec) eqValLoose(a, b Value) *Term {
	switch av := a.(type) {
	case *Closure:
		bv, _ := b.(*Closure)
		if av == nil || bv == nil {
			return x.ts.Bool(av == nil && bv == nil)
		}
		return x.ts.Bool(av.Fn == bv.Fn)
	case Slice:
		bs := b.(Slice)
		if av.Len != bs.Len {
			return x.ts.tFals
		}
		r := x.ts.tTrue
		for i := 0; i < av.Len; i++ {
			r = x.ts.And(r, x.eqValLoose(av.A.E[av.Off+i], bs.A.E[bs.Off+i]))
		}
		return r
	case StructV:
		bv := b.(StructV)
		r := x.ts.tTrue
		for i := range av {
			r = x.ts.And(r, x.eqValLoose(av[i], bv[i]))
		}
		return r
	case ArrayV:
		bv := b.(ArrayV)
		r := x.ts.tTrue
		for i := range av {
			r = x.ts.And(r, x.eqValLoose(av[i], bv[i]))
		}
		return r
	case Iface:
		bi := b.(Iface)
		if av.T == nil || bi.T == nil {
			return x.ts.Bool(av.T == nil && bi.T == nil)
		}
		if !types.Identical(av.T, bi.T) {
			return x.ts.tFals
		}
		return x.eqValLoose(av.V, bi.V)
	case Ptr:
		return x.ts.Bool(av.C == b.(Ptr).C)
	}
	return x.eqVal(a, b)
}

var _ = fmt.Sprintf

// identical: syntactic identity without forcing lazy nodes or consulting the solver.
func (x *Exec) identical(a, b Value) bool {
	if la, ok := a.(*Lazy); ok {
		if lb, ok := b.(*Lazy); ok && la == lb {
			return true
		}
		if la.Res == nil {
			return false
		}
		a = *la.Res
	}
	if lb, ok := b.(*Lazy); ok {
		if lb.Res == nil {
			return false
		}
		b = *lb.Res
	}
	ia, ok1 := a.(Iface)
	ib, ok2 := b.(Iface)
	if !ok1 || !ok2 {
		return false
	}
	if ia.T == nil || ib.T == nil {
		return ia.T == nil && ib.T == nil
	}
	if !types.Identical(ia.T, ib.T) {
		return false
	}
	switch av := ia.V.(type) {
	case *MapObj:
		return av == ib.V.(*MapObj)
	case Slice:
		bs := ib.V.(Slice)
		return av.A == bs.A && av.Off == bs.Off && av.Len == bs.Len
	case *Term:
		return av == ib.V.(*Term) && av.S.K != KFP
	case Str:
		bs := ib.V.(Str)
		if len(av.B) != len(bs.B) {
			return false
		}
		for i := range av.B {
			if av.B[i] != bs.B[i] {
				return false
			}
		}
		return true
	}
	return false
}

func nil2str(x *Exec, f *Term) Value {
	v := math.Float64frombits(f.C)
	abs := math.Abs(v)
	fmtc := byte('f')
	if abs != 0 && (abs < 1e-6 || abs >= 1e21) {
		fmtc = 'e'
	}
	b := strconv.AppendFloat(nil, v, fmtc, -1, 64)
	if fmtc == 'e' {
		n := len(b)
		if n >= 4 && b[n-4] == 'e' && b[n-3] == '-' && b[n-2] == '0' {
			b[n-2] = b[n-1]
			b = b[:n-1]
		}
	}
	return x.ts.StrOf(string(b))
}

// reach collects the mutable objects (maps, backing arrays) reachable from v without
// forcing unresolved lazy nodes.
func (x *Exec) reach(v Value, seen map[interface{}]bool) {
	switch c := v.(type) {
	case *Lazy:
		if c.Res != nil {
			x.reach(*c.Res, seen)
		}
	case Iface:
		x.reach(c.V, seen)
	case *MapObj:
		if c == nil || seen[c] {
			return
		}
		seen[c] = true
		for _, e := range c.Entries {
			x.reach(e.V, seen)
		}
	case Slice:
		if c.A == nil || c.Len == 0 {
			return
		}
		if !seen[c.A] {
			seen[c.A] = true
		}
		if x.visibleEnd != nil && c.Off+c.Len > x.visibleEnd[c.A] {
			x.visibleEnd[c.A] = c.Off + c.Len
		}
		for i := 0; i < c.Len; i++ {
			x.reach(c.A.E[c.Off+i], seen)
		}
	}
}
