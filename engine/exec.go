package main

// Per-path execution state, the fork primitive, assertions, tape.

import (
	"math/rand"
	"fmt"
	"os"
	"go/types"
	"sort"
	"strings"

	"golang.org/x/tools/go/ssa"
)

type targetPanic struct {
	Msg  string
	Site string
	Val  Value
}

type abortSig struct {
	Kind string // assume | infeasible | unsupported | limit | violation | stop
	Msg  string
}

type WriteRec struct {
	Kind   string // "map" | "elem" | "global"
	M      *MapObj
	Key    Value
	A      *Arr
	Idx    int
	Old    Value
	New    Value
	Had    bool
	Del    bool
	Serial int // serial of target object
	Seq    int
	Global string
	Entry  *MapEntry
}

type TapeRec struct {
	Kind  string // byte | bool | int | choose | str | value | f64
	Terms []*Term
	N     int
	Lazy  *Lazy
	Label string
}

type Violation struct {
	Harness string
	Label   string
	Kind    string // assert | panic | frame
	Msg     string
	Tape    []interface{}
	Trail   []int
	Site    string
	Descr   string
}

type Exec struct {
	eng    *Engine
	w      *Worker
	ts     *TermStore
	sol    *Solver
	h      *HarnessRun
	prefix []int
	trail  []int
	pc     []*Term

	serial   int
	varN     int
	vars     []*Term
	globals  map[*ssa.Global]*Value
	steps    int
	depth    int
	tape     []TapeRec
	writeLog []WriteRec
	writeSeq int
	covers   map[string]bool
	lazyN    int
	newTasks [][]int
	estProd  float64 // estimation mode: product of the feasible branching factors along the probe
	rng      *rand.Rand
	observed []string
	unknowns int
	mapType  types.Type
	listType types.Type
	expectPanic bool
	side     map[string]Value // engine-side per-path storage for models
	decisions int
	callStack []*ssa.Function
	orderAll bool
	marks    []markRec
	lastPanic *targetPanic
	deferFrames []*frame
	curFrame *frame
	funcs    map[*ssa.Function]int
	lit      map[*Term]bool
	floatTexts []floatText
	floatTextsJSON []floatText
	inStdInit int
	visibleEnd map[*Arr]int
}

func (x *Exec) unsupported(msg string) {
	panic(abortSig{"unsupported", msg + x.where()})
}

func (x *Exec) where() string {
	if len(x.callStack) == 0 {
		return ""
	}
	n := len(x.callStack)
	lo := n - 4
	if lo < 0 {
		lo = 0
	}
	var names []string
	for _, f := range x.callStack[lo:] {
		names = append(names, f.String())
	}
	return " [in " + strings.Join(names, " > ") + "]"
}

func (x *Exec) tpanic(msg string) {
	if os.Getenv("SYMGO_DEBUG") != "" {
		fmt.Fprintln(os.Stderr, "target panic:", msg, x.where())
	}
	panic(&targetPanic{Msg: msg, Site: x.site()})
}

func (x *Exec) site() string {
	// innermost frames that are not prelude helpers
	if len(x.callStack) == 0 {
		return "?"
	}
	return x.callStack[len(x.callStack)-1].String()
}

func (x *Exec) fresh(prefix string, s Sort) *Term {
	name := fmt.Sprintf("%s%d", prefix, x.varN)
	x.varN++
	t := x.ts.Var(name, s)
	t.Dom = nil
	x.vars = append(x.vars, t)
	return t
}

func (x *Exec) addPC(c *Term) {
	if c.IsTrue() {
		return
	}
	if v, ok := x.lit[c]; ok && v {
		return
	}
	if c.IsFalse() {
		panic(abortSig{"infeasible", "path condition is false"})
	}
	x.pc = append(x.pc, c)
	x.sol.Assert(x.ts, c)
	x.learn(c, true)
}

// learn records literals implied by the path condition, so that a condition met again
// on the same path is decided without a solver call.
func (x *Exec) learn(c *Term, v bool) {
	if c.IsConst() {
		return
	}
	x.lit[c] = v
	switch c.Op {
	case ONot:
		x.learn(c.Args[0], !v)
	case OAnd:
		if v {
			x.learn(c.Args[0], true)
			x.learn(c.Args[1], true)
		}
	case OOr:
		if !v {
			x.learn(c.Args[0], false)
			x.learn(c.Args[1], false)
		}
	}
}

// known simplifies a condition with the literals learned on this path.
func (x *Exec) known(c *Term) *Term {
	if c == nil || c.IsConst() {
		return c
	}
	if v, ok := x.lit[c]; ok {
		return x.ts.Bool(v)
	}
	switch c.Op {
	case ONot:
		a := x.known(c.Args[0])
		if a != c.Args[0] {
			return x.ts.Not(a)
		}
	case OAnd:
		a, b := x.known(c.Args[0]), x.known(c.Args[1])
		if a != c.Args[0] || b != c.Args[1] {
			return x.ts.And(a, b)
		}
	case OOr:
		a, b := x.known(c.Args[0]), x.known(c.Args[1])
		if a != c.Args[0] || b != c.Args[1] {
			return x.ts.Or(a, b)
		}
	}
	return c
}

// choose is the only fork primitive. conds[i]==nil means "free" (always feasible).
// exhaustive: the disjunction of conds is valid.
func (x *Exec) choose(kind string, conds []*Term, exhaustive bool) int {
	if len(x.lit) > 0 {
		var nc []*Term
		for i, c := range conds {
			k := x.known(c)
			if k != c {
				if nc == nil {
					nc = append([]*Term(nil), conds...)
				}
				nc[i] = k
			}
		}
		if nc != nil {
			conds = nc
		}
	}
	live := make([]int, 0, len(conds))
	for i, c := range conds {
		if c == nil || !c.IsFalse() {
			live = append(live, i)
		}
	}
	if len(live) == 0 {
		panic(abortSig{"infeasible", "no alternative in " + kind})
	}
	if len(live) == 1 {
		c := conds[live[0]]
		if c == nil || c.IsTrue() || exhaustive {
			return live[0]
		}
	}
	// an alternative that is syntactically true makes the rest infeasible
	for _, i := range live {
		if c := conds[i]; c != nil && c.IsTrue() {
			return i
		}
	}
	pos := len(x.trail)
	x.decisions++
	if pos < len(x.prefix) {
		alt := x.prefix[pos]
		x.trail = append(x.trail, alt)
		if alt >= len(conds) {
			panic(abortSig{"unsupported", "replay divergence in " + kind})
		}
		if c := conds[alt]; c != nil {
			x.addPC(c)
		}
		return alt
	}
	var feas []int
	for idx, i := range live {
		c := conds[i]
		if c == nil {
			feas = append(feas, i)
			continue
		}
		if exhaustive && idx == len(live)-1 && len(feas) == 0 {
			feas = append(feas, i)
			continue
		}
		r := x.sol.CheckWith(x.ts, c, "feasibility")
		switch r {
		case "sat":
			feas = append(feas, i)
		case "unsat":
		default:
			if d := os.Getenv("SYMGO_DUMP_UNKNOWN"); d != "" {
				x.sol.dumpDir, x.sol.dumpLimit = d, 1000
				x.sol.Push()
				x.sol.Assert(x.ts, c)
				x.sol.send("(check-sat)\n")
				x.sol.Dump("unknown")
				x.sol.Pop()
			}
			x.unknowns++
			feas = append(feas, i) // keep: sound
		}
	}
	if len(feas) == 0 {
		panic(abortSig{"infeasible", "no feasible alternative in " + kind})
	}
	alt := feas[0]
	if x.rng != nil {
		// estimation mode (Knuth 1975): one random descent; the product of the numbers of
		// feasible alternatives is an unbiased estimate of the number of paths
		x.estProd *= float64(len(feas))
		alt = feas[x.rng.Intn(len(feas))]
	} else {
		for _, j := range feas[1:] {
			t := make([]int, len(x.trail)+1)
			copy(t, x.trail)
			t[len(x.trail)] = j
			x.newTasks = append(x.newTasks, t)
		}
	}
	x.trail = append(x.trail, alt)
	if c := conds[alt]; c != nil {
		x.addPC(c)
	}
	return alt
}

// branch forks on a Bool term; returns the taken side.
func (x *Exec) branch(c *Term, kind string) bool {
	if c.IsConst() {
		return c.C == 1
	}
	return x.choose(kind, []*Term{c, x.ts.Not(c)}, true) == 0
}

// pick is a free n-way choice.
func (x *Exec) pick(kind string, n int) int {
	if n <= 0 {
		panic(abortSig{"infeasible", "empty choice " + kind})
	}
	if n == 1 {
		return 0
	}
	return x.choose(kind, make([]*Term, n), true)
}

// concretize forks over the values of t in [lo, hi); returns -1 for "outside".
func (x *Exec) concretize(t *Term, lo, hi int, signed bool, kind string) int {
	v, ok := x.concretizeOK(t, lo, hi, signed, kind)
	if !ok {
		return -1
	}
	return v
}

func (x *Exec) concretizeOK(t *Term, lo, hi int, signed bool, kind string) (int, bool) {
	if t.IsConst() {
		var v int64
		if signed {
			v = t.SVal()
		} else {
			v = int64(t.C)
			if t.C > 1<<62 {
				return 0, false
			}
		}
		if v < int64(lo) || v >= int64(hi) {
			return 0, false
		}
		return int(v), true
	}
	if hi-lo > 300 {
		x.unsupported(fmt.Sprintf("concretize range too large (%d) in %s", hi-lo, kind))
	}
	conds := make([]*Term, 0, hi-lo+1)
	for i := lo; i < hi; i++ {
		conds = append(conds, x.ts.Eq(t, x.ts.BV(t.S.W, uint64(int64(i)))))
	}
	var in *Term
	if signed {
		in = x.ts.And(x.ts.Cmp(OSLe, x.ts.BV(t.S.W, uint64(int64(lo))), t), x.ts.Cmp(OSLt, t, x.ts.BV(t.S.W, uint64(int64(hi)))))
	} else {
		in = x.ts.And(x.ts.Cmp(OULe, x.ts.BV(t.S.W, uint64(lo)), t), x.ts.Cmp(OULt, t, x.ts.BV(t.S.W, uint64(hi))))
	}
	conds = append(conds, x.ts.Not(in))
	r := x.choose(kind, conds, true)
	if r == hi-lo {
		return 0, false
	}
	return lo + r, true
}

// ---- assertions ----

func (x *Exec) checkModel(c *Term, kind string) (string, map[string]uint64) {
	x.sol.Push()
	x.sol.Assert(x.ts, c)
	r := x.sol.Check(kind)
	var m map[string]uint64
	if r == "sat" {
		m = x.sol.Values(x.ts, x.vars)
	}
	if kind == "assertion" || kind == "frame" {
		if r == "unsat" {
			x.sol.Dump("unsat")
		} else if r == "sat" {
			x.sol.Dump("sat")
		}
	}
	x.sol.Pop()
	return r, m
}

func (x *Exec) assume(c *Term) {
	if c.IsTrue() {
		return
	}
	if c.IsFalse() {
		panic(abortSig{"assume", ""})
	}
	r := x.sol.CheckWith(x.ts, c, "assume")
	if r == "unsat" {
		panic(abortSig{"assume", ""})
	}
	if r != "sat" {
		x.unknowns++
	}
	x.addPC(c)
}

func (x *Exec) assert(c *Term, label string) {
	x.h.noteAssert(label)
	if c.IsTrue() {
		return
	}
	r, m := x.checkModel(x.ts.Not(c), "assertion")
	switch r {
	case "unsat":
		x.addPC(c)
		return
	case "sat":
		x.violation("assert", label, "assertion can be false", m)
	default:
		panic(abortSig{"unsupported", "solver " + r + " on assertion " + label})
	}
}

func (x *Exec) violation(kind, label, msg string, model map[string]uint64) {
	v := &Violation{Harness: x.h.Name, Label: label, Kind: kind, Msg: msg, Trail: append([]int(nil), x.trail...)}
	v.Tape = x.dumpTape(model)
	x.h.addViolation(v)
	panic(abortSig{"violation", label})
}

// current model of PC (for panics on a path)
func (x *Exec) pcModel() map[string]uint64 {
	r, m := x.checkModel(x.ts.tTrue, "model")
	if r != "sat" {
		return nil
	}
	return m
}

// ---- tape ----

func tval(t *Term, m map[string]uint64) uint64 {
	return evalTerm(t, m)
}

func (x *Exec) dumpTape(m map[string]uint64) []interface{} {
	var out []interface{}
	for _, r := range x.tape {
		switch r.Kind {
		case "byte", "int", "bool", "f64":
			v := tval(r.Terms[0], m)
			if r.Kind == "int" {
				out = append(out, map[string]interface{}{"k": r.Kind, "v": int64(v), "l": r.Label})
			} else if r.Kind == "f64" {
				out = append(out, map[string]interface{}{"k": r.Kind, "v": fmt.Sprintf("%x", v), "l": r.Label})
			} else {
				out = append(out, map[string]interface{}{"k": r.Kind, "v": v, "l": r.Label})
			}
		case "choose":
			out = append(out, map[string]interface{}{"k": "choose", "v": r.N, "l": r.Label})
		case "str":
			bs := make([]int, len(r.Terms))
			for i, t := range r.Terms {
				bs[i] = int(tval(t, m))
			}
			out = append(out, map[string]interface{}{"k": "str", "v": bs, "l": r.Label, "s": bytesToStr(bs)})
		case "value":
			out = append(out, map[string]interface{}{"k": "value", "v": x.dumpLazy(r.Lazy, m), "l": r.Label})
		}
	}
	return out
}

func bytesToStr(bs []int) string {
	b := make([]byte, len(bs))
	for i, v := range bs {
		b[i] = byte(v)
	}
	return fmt.Sprintf("%q", string(b))
}

// evalTerm evaluates a term under a variable assignment (missing vars = 0).
func evalTerm(t *Term, m map[string]uint64) uint64 {
	switch t.Op {
	case OConst:
		return t.C
	case OVar:
		return m[t.Name]
	}
	a := make([]uint64, len(t.Args))
	for i, x := range t.Args {
		a[i] = evalTerm(x, m)
	}
	w := t.S.W
	switch t.Op {
	case ONot:
		return 1 - a[0]
	case OAnd:
		return a[0] & a[1]
	case OOr:
		return a[0] | a[1]
	case OIte:
		if a[0] == 1 {
			return a[1]
		}
		return a[2]
	case OEq:
		if a[0] == a[1] {
			return 1
		}
		return 0
	case OAdd:
		return (a[0] + a[1]) & mask(w)
	case OSub:
		return (a[0] - a[1]) & mask(w)
	case OMul:
		return (a[0] * a[1]) & mask(w)
	case OBAnd:
		return a[0] & a[1]
	case OBOr:
		return a[0] | a[1]
	case OBXor:
		return a[0] ^ a[1]
	case ONeg:
		return (-a[0]) & mask(w)
	case OBNot:
		return (^a[0]) & mask(w)
	case OZExt:
		return a[0]
	case OSExt:
		return uint64(sext(a[0], t.Args[0].S.W)) & mask(w)
	case OTrunc:
		return a[0] & mask(w)
	case OULt:
		return b2u(a[0] < a[1])
	case OULe:
		return b2u(a[0] <= a[1])
	case OSLt:
		return b2u(sext(a[0], t.Args[0].S.W) < sext(a[1], t.Args[0].S.W))
	case OSLe:
		return b2u(sext(a[0], t.Args[0].S.W) <= sext(a[1], t.Args[0].S.W))
	case OUDiv:
		if a[1] == 0 {
			return mask(w)
		}
		return a[0] / a[1]
	case OURem:
		if a[1] == 0 {
			return a[0]
		}
		return a[0] % a[1]
	case OShl:
		if a[1] >= uint64(w) {
			return 0
		}
		return (a[0] << a[1]) & mask(w)
	case OLShr:
		if a[1] >= uint64(w) {
			return 0
		}
		return a[0] >> a[1]
	}
	return 0
}

func b2u(b bool) uint64 {
	if b {
		return 1
	}
	return 0
}

// ---- write log / frame ----

func (x *Exec) logMapWrite(m *MapObj, e *MapEntry, key Value, old Value, had bool, nv Value, del bool) {
	x.writeSeq++
	x.writeLog = append(x.writeLog, WriteRec{Kind: "map", M: m, Entry: e, Key: key, Old: old, Had: had, New: nv, Del: del, Serial: m.Serial, Seq: x.writeSeq})
}

func (x *Exec) logElemWrite(a *Arr, idx int, old, nv Value) {
	x.writeSeq++
	x.writeLog = append(x.writeLog, WriteRec{Kind: "elem", A: a, Idx: idx, Old: old, New: nv, Serial: a.Serial, Seq: x.writeSeq})
}

func (x *Exec) logGlobalWrite(name string, old, nv Value) {
	x.writeSeq++
	x.writeLog = append(x.writeLog, WriteRec{Kind: "global", Global: name, Old: old, New: nv, Seq: x.writeSeq})
}

func sortedKeys(m map[string]bool) []string {
	var ks []string
	for k := range m {
		ks = append(ks, k)
	}
	sort.Strings(ks)
	return ks
}
