package mxj

func init() {
	vHarnesses["H_C01_decode"] = H_C01_decode
	vHarnesses["H_C01_decode_opts"] = H_C01_decode_opts
	vHarnesses["H_C01_decode_root"] = H_C01_decode_root
	vHarnesses["H_C01_decode_twice"] = H_C01_decode_twice
	vHarnesses["H_C01_decode_nested"] = H_C01_decode_nested
	vHarnesses["H_C01_decode_rich"] = H_C01_decode_rich
	vHarnesses["H_C01_decode_values"] = H_C01_decode_values
	vHarnesses["H_C01_decode_cast"] = H_C01_decode_cast
}

// vSetDecOpts drives the real option setters; arguments may be symbolic.
func vSetDecOpts(o vDecOpts) {
	SetAttrPrefix(o.attrPrefix)
	CoerceKeysToLower(o.lower)
	CoerceKeysToSnakeCase(o.snake)
	DecodeSimpleValuesAsMap(o.simpleAsMap)
	DisableTrimWhiteSpace(o.keepSpaces)
	IncludeTagSeqNum(o.seq)
	XMLEscapeCharsDecoder(o.escape)
	HandleXMPPStreamTag(false)
	SetCheckTagToSkipFunc(nil)
	if len(o.textKey) >= 4 {
		SetGlobalKeyMapPrefix(o.textKey[:len(o.textKey)-4]) // "#text" -> "#", "_text" -> "_"
	} else {
		SetGlobalKeyMapPrefix("#")
	}
}

func vResetDecOpts() {
	vSetDecOpts(vDecOpts{attrPrefix: "-"})
	XMLEscapeChars(false)
}

func vC01(ts vTreeSpec, o vDecOpts, prolog bool) {
	root := vNondetElem(ts, ts.depth)
	doc := ""
	if prolog {
		switch vChoose(3) {
		case 1:
			doc = "<?xml version=\"1.0\" encoding=\"UTF-8\"?>\n"
		case 2:
			doc = "\n<!-- c -->\n"
		}
	}
	vC01tree(root, o, doc)
}

func vC01tree(root *vXElem, o vDecOpts, doc string) {
	prolog := doc != ""
	doc += vRenderElem(root)
	if prolog && vChoose(2) == 1 {
		doc += "\n"
	}
	wantKey, wantVal, outside := refDecodeElem(root, o)
	vAssume(!outside)
	vSetDecOpts(o)
	var m Map
	var err error
	if o.cast != nil {
		m, err = NewMapXml([]byte(doc), true)
	} else if vChoose(2) == 0 {
		m, err = NewMapXml([]byte(doc))
	} else {
		m, err = NewMapXml([]byte(doc), false)
	}
	vResetDecOpts()
	vResetCastOpts()
	vAssert(err == nil, "decode: a well-formed document decodes without error")
	vAssert(len(m) == 1, "decode: exactly one root key")
	got, has := m[wantKey]
	vAssert(has, "decode: the root key is the (folded) root element name")
	vAssert(vDeepEq(got, wantVal), "decode: the Map is exactly what the documented conventions prescribe")
	vCover("decoded")
	if _, isMap := wantVal.(map[string]interface{}); isMap {
		vCover("complex")
	}
}

// default options, sibling structure: interleaved repeated names (a,b,a), text before children
func H_C01_decode() {
	ts := vTreeSpec{depth: 1, maxKids: vP("kids", 3, 4), maxAttrs: vP("attrs", 0, 1), nameAlpha: "ab", attrAlpha: "ab", textAlpha: []string{"x ", "x <"}[vP("rich", 0, 1)], textMax: 1}
	vC01(ts, vDecOpts{attrPrefix: "-", textKey: "#text"}, false)
}

// default options: value syntax - entity references, CDATA, white space, attribute values
func H_C01_decode_values() {
	ts := vTreeSpec{depth: vP("depth", 0, 1), maxKids: vP("kids", 0, 1), maxAttrs: 1, nameAlpha: "a", attrAlpha: "b", textAlpha: []string{"x <&\n\"'", "x <&\n\"'>"}[vP("rich", 0, 1)], textMax: vP("text", 2, 2), cdata: true}
	vC01(ts, vDecOpts{attrPrefix: "-", textKey: "#text", escape: vNondetBool()}, false)
}

// default options: attributes, namespaces, comments, PIs, prolog
func H_C01_decode_rich() {
	ts := vTreeSpec{depth: 1, maxKids: vP("kids", 1, 2), maxAttrs: vP("attrs", 2, 2), nameAlpha: "ab", attrAlpha: "ab", textAlpha: "x", textMax: 1, valMin: 1, ignorable: true, prefixes: true}
	vC01(ts, vDecOpts{attrPrefix: "-", textKey: "#text"}, true)
}

// default options, nested documents
func H_C01_decode_nested() {
	ts := vTreeSpec{depth: vP("depth", 2, 3), maxKids: vP("kids", 2, 2), maxAttrs: vP("attrs", 0, 0), nameAlpha: "ab", attrAlpha: "ab", textAlpha: "x", textMax: 1}
	vC01(ts, vDecOpts{attrPrefix: "-", textKey: "#text"}, false)
}

// all 2^6 x 4 option combinations on a fixed-shape document (quick) / small trees (thorough)
func H_C01_decode_opts() {
	o := vDecOpts{textKey: "#text"}
	o.attrPrefix = []string{"-", "", "@", "at_", "A_"}[vChoose(5)] // the last one has a letter that case folding changes
	o.lower = vNondetBool()
	o.snake = vNondetBool()
	o.simpleAsMap = vNondetBool()
	o.keepSpaces = vNondetBool()
	o.seq = vNondetBool()
	if o.seq && vChoose(2) == 1 {
		o.textKey = "_text" // reserved keys with another prefix (SetGlobalKeyMapPrefix)
	}
	o.escape = vNondetBool()
	if vP("trees", 0, 1) == 1 {
		ts := vTreeSpec{depth: 1, maxKids: vP("kids", 2, 2), maxAttrs: vP("attrs", 1, 1), nameAlpha: "aA", attrAlpha: "bB", textAlpha: "x &", textMax: 1, suffixes: []string{"-c"}}
		vC01(ts, o, false)
		return
	}
	suffix := []string{"", "-c", "-c-d"}[vChoose(3)] // names with one and with several hyphens
	k1 := &vXElem{name: vNondetString(1, 1, "aA"), items: []vXItem{{kind: 1, text: " x"}}}
	k2 := &vXElem{name: vNondetString(1, 1, "aA") + suffix}
	root := &vXElem{name: "r" + suffix,
		attrs: [][2]string{{vNondetString(1, 1, "bB") + suffix, "&"}},
		items: []vXItem{{kind: 1, text: vNondetString(1, 1, " x&")}, {kind: 0, el: k1}, {kind: 0, el: k2}}}
	vC01tree(root, o, "")
}

// a document that is nothing but a root element with text (with or without an attribute),
// under the structural options
func H_C01_decode_root() {
	o := vDecOpts{attrPrefix: "-", textKey: []string{"#text", "_text"}[vChoose(2)]}
	o.seq = vNondetBool()
	o.simpleAsMap = vNondetBool()
	o.lower = vNondetBool()
	o.keepSpaces = vNondetBool()
	root := &vXElem{name: vNondetString(1, 1, "rR"), items: []vXItem{{kind: 1, text: vNondetString(1, 2, "x &")}}}
	if vChoose(2) == 1 {
		root.attrs = [][2]string{{"b", "1"}}
	}
	if vChoose(3) == 0 {
		root.items = nil // an empty root
	}
	vC01tree(root, o, "")
}

// cast flag together with the structural options (tag sequence numbers, simple values as
// map): the decoded structure is the documented one with each leaf cast independently
func H_C01_decode_cast() {
	co := vCastOpts{toInt: vNondetBool(), toFloat: vNondetBool(), toBool: vNondetBool()}
	o := vDecOpts{attrPrefix: "-", textKey: []string{"#text", "_text"}[vChoose(2)]}
	o.seq = vNondetBool()
	o.simpleAsMap = vNondetBool()
	o.cast = func(s string, key string) interface{} {
		v, _ := refCast(s, co)
		return v
	}
	vals := []string{"1", "x", "true", "1.5", "-7", "0", "010", "08", "0x1F", "1_0"}
	k1 := &vXElem{name: "a", items: []vXItem{{kind: 1, text: vals[vChoose(len(vals))]}}}
	var root *vXElem
	if vChoose(2) == 1 {
		// castable text before the first child of an element without attributes
		k3 := &vXElem{name: "c", items: []vXItem{{kind: 1, text: vals[vChoose(4)]}, {kind: 0, el: &vXElem{name: "d"}}}}
		root = &vXElem{name: "r", items: []vXItem{{kind: 1, text: vals[vChoose(4)]}, {kind: 0, el: k1}, {kind: 0, el: k3}}}
	} else {
		k2 := &vXElem{name: vNondetString(1, 1, "ab"), items: []vXItem{{kind: 1, text: vals[vChoose(6)]}}}
		k3 := &vXElem{name: "c"}
		root = &vXElem{name: "r", attrs: [][2]string{{"n", vals[[]int{0, 1, 2, 3, 6, 8}[vChoose(6)]]}},
			items: []vXItem{{kind: 0, el: k1}, {kind: 0, el: k2}, {kind: 0, el: k3}}}
	}
	vSetCastOpts(co)
	vC01tree(root, o, "")
}

// a decode depends on the options in force when it runs, not on what an earlier decode saw:
// the same document (hyphenated, mixed-case names, castable values) decoded two or three
// times with the options changed in between, in every order of the setters
func H_C01_decode_twice() {
	mk := func() vDecOpts {
		o := vDecOpts{attrPrefix: "-", textKey: "#text"}
		o.lower = vNondetBool()
		o.snake = vNondetBool()
		return o
	}
	root := &vXElem{name: "r", attrs: [][2]string{{"Host-Id", "7"}},
		items: []vXItem{{kind: 0, el: &vXElem{name: "Host-Name", items: []vXItem{{kind: 1, text: vNondetString(1, 1, "x7")}}}},
			{kind: 0, el: &vXElem{name: "Line-Item", items: []vXItem{{kind: 1, text: "42"}}}}}}
	for i := 0; i < 2; i++ {
		o := mk()
		if preset := vChoose(4); preset > 0 {
			co := vCastOpts{toInt: preset < 3, toFloat: preset == 3, toBool: preset == 3}
			o.cast = func(s string, key string) interface{} {
				v, _ := refCast(s, co)
				return v
			}
			// the cast setters in one of two orders
			if preset == 2 {
				CastValuesToFloat(co.toFloat)
				CastValuesToBool(co.toBool)
				CastValuesToInt(co.toInt)
			} else {
				CastValuesToInt(co.toInt)
				CastValuesToFloat(co.toFloat)
				CastValuesToBool(co.toBool)
			}
			CastNanInf(false)
			SetCheckTagToSkipFunc(nil)
		}
		vC01again(root, o)
	}
	vResetCastOpts()
}

// vC01again: vC01tree without resetting the cast options first (they were just set by the caller)
func vC01again(root *vXElem, o vDecOpts) {
	doc := vRenderElem(root)
	wantKey, wantVal, outside := refDecodeElem(root, o)
	vAssume(!outside)
	vSetDecOpts(o)
	m, err := NewMapXml([]byte(doc), o.cast != nil)
	vResetDecOpts()
	vAssert(err == nil && len(m) == 1, "decode(again): decodes to one root key")
	vAssert(vDeepEq(m[wantKey], wantVal), "decode(again): the Map is what the conventions prescribe under the options in force now, whatever was decoded before")
	vCover("decoded")
}
