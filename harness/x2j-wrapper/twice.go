package x2j

import (
	"github.com/clbanning/mxj/v2"
)

func init() {
	vHarnesses["H_C20_w_twice"] = H_C20_w_twice
}

// the document wrappers decode the document they are given at each call, and the value walker
// returns values that a later query does not disturb
func H_C20_w_twice() {
	c := vNondetString(1, 1, "xy")
	doc := "<doc><s a=\"1\"><list>a</list><list>b</list><list>c</list><e>" + c + "</e></s></doc>"
	m1, e1 := DocToMap(doc)
	vAssert(e1 == nil, "wrapper twice: decodes")
	d := m1["doc"].(map[string]interface{})
	d["added"] = "edit"
	m2, e2 := DocToMap(doc)
	want, _ := mxj.NewMapXml([]byte(doc))
	vAssert(e2 == nil && vDeepEq(m2, map[string]interface{}(want)), "wrapper twice: a second DocToMap returns the document, not the edited result of the first")
	j, je := DocToJson(doc)
	wj, _ := want.Json()
	vAssert(je == nil && j == string(wj), "wrapper twice: DocToJson likewise")
	r0 := ValuesFromKeyPath(m2, "doc.s.*", false)
	if len(r0) > 0 {
		r0[0] = "edited" // the caller owns the result
	}
	vAssert(vDeepEq(m2, map[string]interface{}(want)), "wrapper twice: editing a result does not edit the document")
	r1 := ValuesFromKeyPath(m2, "doc.s.list", true)
	keep := append([]interface{}{}, r1...)
	r2 := ValuesFromKeyPath(m2, "doc.s.*", true)
	vAssert(len(r2) > 0 && vSameMultisetDeep(r1, keep) && len(r1) == 3, "wrapper twice: the values returned by one query are not altered by a later query")
	vAssert(vDeepEq(m2, map[string]interface{}(want)), "wrapper twice: and the document is unchanged")
	vCover("twice")
}
