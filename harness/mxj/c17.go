package mxj

import (
	"io"
	"math"
)

func init() {
	vHarnesses["H_C17_pure_query"] = H_C17_pure_query
	vHarnesses["H_C17_pure_encode"] = H_C17_pure_encode
	vHarnesses["H_C17_pure_indexed"] = H_C17_pure_indexed
	vHarnesses["H_C17_copy"] = H_C17_copy
	vHarnesses["H_C17_copy_named"] = H_C17_copy_named
	vHarnesses["H_C17_copy_nan"] = H_C17_copy_nan
	vHarnesses["H_C17_results"] = H_C17_results
	vHarnesses["H_C17_footprint"] = H_C17_footprint
}

func vC17spec() vSpec {
	return vSpec{Depth: vP("depth", 2, 3), Width: vP("width", 2, 2), Kinds: "mlsn", KeyAlpha: "ab-", KeyMin: 1, KeyMax: 1, StrAlpha: "x", StrMin: 1, StrMax: 1, NoListInList: true}
}

// read-only queries leave the receiver exactly as it was
func H_C17_pure_query() {
	vResetDecOpts()
	m := vNondetMap(vC17spec())
	k := vNondetString(1, 1, "ab*")
	mark := vMark(m)
	switch vChoose(6) {
	case 0:
		_, _ = Map(m).ValuesForKey(k)
		_, _ = Map(m).ValueForKey(k)
	case 1:
		_, _ = Map(m).ValuesForPath(k + ".a")
		_, _ = Map(m).ValuesForPath(k+".a", "a:x")
		_, _ = Map(m).Exists("a." + k)
		_, _ = Map(m).ValueForPath("a." + k)
	case 2:
		_ = Map(m).PathsForKey(k)
		_ = Map(m).PathForKeyShortest(k)
	case 3:
		_ = Map(m).LeafNodes()
		_ = Map(m).LeafPaths(true)
		_ = Map(m).LeafValues()
	case 4:
		_, _ = Map(m).Elements("a")
		_, _ = Map(m).Attributes("a")
		_, _ = Map(m).Root()
	default:
		_, _ = Map(m).NewMap("a:n", "b:n.y", k+":q")
		// overlapping new paths on a receiver with a list nested directly in a list
		nl := Map{"a": []interface{}{[]interface{}{map[string]interface{}{"p": k}, "s"}}, "b": "B"}
		mk2 := vMark(map[string]interface{}(nl))
		_, _ = nl.NewMap("a:x", "b:x.y")
		_, _ = nl.NewMap("a[0]:x", "b:x.p")
		vAssertUnchangedSince(mk2, "purity: NewMap leaves a receiver with nested lists as it was")
	}
	vAssertUnchangedSince(mark, "purity: a read-only query leaves its receiver deeply equal to what it was")
	vCover("query")
}

// indexed paths with sub-key filters over lists of maps
func H_C17_pure_indexed() {
	vResetDecOpts()
	d := vP("depth", 5, 6)
	m := vNondetMap(vSpec{Depth: d, Width: vP("width", 2, 2), MapWidth: 1, Kinds: "mls", KeyAlpha: "a", KeyMin: 1, KeyMax: 1, StrAlpha: "xy", StrMin: 1, StrMax: 1, NoListInList: true})
	mark := vMark(m)
	sub := []string{"a:x", "!a:x", "a:*"}[vChoose(3)]
	switch vChoose(5) {
	case 3: // un-indexed paths that end at a list whose members are filtered by the sub-keys
		_, _ = Map(m).ValuesForPath("a.a", sub)
	case 4:
		_, _ = Map(m).ValuesForPath("a", sub)
		_, _ = Map(m).ValuesForPath("*.a", sub)
	case 0:
		_, _ = Map(m).ValuesForPath("a[0].a", sub)
	case 1:
		_, _ = Map(m).ValuesForPath("a[1]", sub)
	default:
		_, _ = Map(m).ValuesForPath("a.a[0].a", sub)
	}
	vAssertUnchangedSince(mark, "purity: an indexed query with sub-keys leaves its receiver deeply equal to what it was")
	vCover("indexed")
}

// encoders, Copy and StringIndent leave the receiver exactly as it was
func H_C17_pure_encode() {
	vResetDecOpts()
	spec := vC17spec()
	spec.Kinds = "mls"
	m := vNondetMap(spec)
	k := vNondetString(1, 1, "ab")
	ms, _ := NewMapXmlSeq([]byte("<r " + k + "=\"1\" z=\"2\"><!--c--><" + k + ">x</" + k + "><b/></r>"))
	if vChoose(2) == 1 {
		// a MapSeq that has been stored as JSON: its sequence numbers are float64
		j, _ := Map(ms).Json()
		mj, _ := NewMapJson(j)
		ms = MapSeq(mj)
	}
	mark := vMark(m, map[string]interface{}(ms))
	switch vChoose(8) {
	case 6: // a hand-built MapSeq: a root list whose sequence numbers do not ascend
		hb := MapSeq{"r": []interface{}{
			map[string]interface{}{"#seq": 1, "#text": "b"},
			map[string]interface{}{"#seq": 0, "#text": k},
		}}
		mk3 := vMark(map[string]interface{}(hb))
		_, _ = hb.Xml()
		_, _ = hb.XmlIndent("", " ")
		vAssertUnchangedSince(mk3, "purity: the sequence encoder leaves a list it emits in sequence order as it was")
	case 5: // gob encoder (encoding/gob itself is a contract stub), also on json.Number values
		_, _ = Map(m).Gob()
		JsonUseNumber = true
		mn, _ := NewMapJson([]byte("{\"n\":12,\"o\":{\"p\":1.5}}"))
		JsonUseNumber = false
		mk2 := vMark(map[string]interface{}(mn))
		_, _ = mn.Gob()
		vAssertUnchangedSince(mk2, "purity: the gob encoder leaves a Map of json.Number values as it was")
	case 0:
		_, _ = Map(m).Xml()
	case 1:
		_, _ = Map(m).XmlIndent("", " ")
	case 2:
		_, _ = Map(m).Json()
		_, _ = Map(m).JsonIndent("", " ", true)
	case 3:
		_, _ = Map(m).Copy()
	case 4:
		_ = Map(m).StringIndentNoTypeInfo()
	default:
		_, _ = ms.Xml()
		_, _ = ms.XmlIndent("", " ")
	}
	vAssertUnchangedSince(mark, "purity: an encoder leaves its receiver deeply equal to what it was")
	vCover("encode")
}

// Copy shares no mutable structure with the original
func H_C17_copy() {
	spec := vC17spec()
	spec.Kinds = "mls"
	m := vNondetMap(spec)
	c, err := Map(m).Copy()
	vAssert(err == nil, "copy: a Map of JSON types can be copied")
	vAssert(vDeepEq(map[string]interface{}(c), m), "copy: the copy is deeply equal to the original")
	vAssert(!vShares(m, map[string]interface{}(c)), "copy: the copy shares no map or list with the original")
	mark := vMark(m)
	// mutate the copy at a reachable position
	var cur interface{} = map[string]interface{}(c)
	for i := 0; i < 2; i++ {
		cm, ok := cur.(map[string]interface{})
		if !ok {
			break
		}
		cm["zz"] = "changed"
		next := interface{}(nil)
		for _, v := range cm {
			if _, isMap := v.(map[string]interface{}); isMap {
				next = v
			}
			if l, isList := v.([]interface{}); isList && len(l) > 0 {
				l[0] = "changed"
			}
		}
		cur = next
	}
	vAssertUnchangedSince(mark, "copy: mutating the copy leaves the original untouched")
	vCover("copy")
}

// footprint: decode / encode / query operations write nothing but objects they allocate
// themselves - no package-level variable, no shared structure - hence they are free of
// data races against each other under every interleaving
func H_C17_footprint() {
	vResetDecOpts()
	spec := vC17spec()
	spec.Kinds = "mls"
	m := vNondetMap(spec)
	k := vNondetString(1, 1, "ab")
	ms, _ := NewMapXmlSeq([]byte("<r " + k + "=\"1\"><!--c--><" + k + ">x</" + k + "><b/></r>"))
	op := vChoose(15)
	wl := make([]interface{}, 33+vChoose(2))
	for i := range wl {
		wl[i] = "v"
	}
	wide := Map{"a": wl}
	// options are fixed before the concurrent phase; both escaping modes are covered
	switch vChoose(3) {
	case 1:
		XMLEscapeChars(true)
	case 2:
		XMLEscapeCharsDecoder(true)
	}
	mark := vMark(m, map[string]interface{}(ms))
	vConcurrent(func() {
		switch op {
		case 0:
			_, _ = NewMapXml([]byte("<r " + k + "=\"1\"><" + k + ">x</" + k + "><c/></r>"))
		case 1:
			_, _ = NewMapXml([]byte("<r><"+k+">1.5</"+k+"><b>true</b></r>"), true)
		case 2:
			_, _ = NewMapXmlSeq([]byte("<r " + k + "=\"1\"><!--c--><" + k + "/></r>"))
		case 3:
			_, _ = NewMapJson([]byte("{\"" + k + "\":[1,\"x\"]}"))
		case 4:
			_, _ = Map(m).Xml()
			_, _ = Map(m).XmlIndent("", " ")
		case 5:
			_, _ = Map(m).Json()
		case 6:
			_, _ = Map(m).ValuesForPath("*." + k)
			_, _ = Map(m).ValuesForKey(k, k+":x")
			_ = Map(m).PathsForKey(k)
		case 7:
			_ = Map(m).LeafNodes()
			_, _ = Map(m).Copy()
		case 13: // queries that miss, and the formatter
			_, _ = Map(m).ValueForPath("zz.nope")
			_, _ = Map(m).Elements("zz.nope")
			_, _ = Map(m).Attributes("zz")
			_, _ = Map(m).ValueForKey("nope")
		case 14:
			_, _ = BeautifyXml([]byte("<r "+k+"=\"1\"><"+k+">x&amp;</"+k+"></r>"), "", " ")
			_, _ = NewMapFormattedXmlSeq([]byte("<r>\n <" + k + "/>\n</r>"))
		case 12: // more results than the initial size of the result buffer
			_, _ = wide.ValuesForPath("a")
			_, _ = wide.ValuesForKey("a")
			_, _ = wide.ValuesForPath("*")
		case 9: // reader forms over a reader that is not an io.ByteReader
			_, _ = NewMapXmlReader(vSlow([]byte("<r><" + k + ">x</" + k + "></r>")))
		case 10:
			_, _ = NewMapXmlSeqReader(vSlow([]byte("<r " + k + "=\"1\"><b/></r>")))
		case 11:
			_, _, _ = NewMapXmlReaderRaw(vSlow([]byte("<r><" + k + "/></r>")))
			_, _ = NewMapJsonReader(vSlow([]byte("{\"" + k + "\":1}")))
		default:
			_, _ = ms.XmlIndent("", " ")
		}
	})
	vAssertNoWritesSince(mark, "concurrency: decode, encode and query operations write no package-level variable and no shared structure")
	vResetDecOpts()
	vCover("footprint")
}

// vSlowReader delivers one byte per Read and is not an io.ByteReader (so the package wraps
// it); it is created inside the concurrent section and reads no tape, which keeps the
// native two-goroutine replay free of shared harness state
type vSlowReader struct {
	b []byte
	i int
}

func (r *vSlowReader) Read(p []byte) (int, error) {
	if r.i >= len(r.b) {
		return 0, io.EOF
	}
	if len(p) == 0 {
		return 0, nil
	}
	p[0] = r.b[r.i]
	r.i++
	return 1, nil
}

func vSlow(b []byte) io.Reader { return &vSlowReader{b: b} }

// Copy of a "flat looking" Map whose values are of the named type Map (not
// map[string]interface{}): nothing is shared with the original
func H_C17_copy_named() {
	inner := Map{"b": vNondetString(1, 1, "xy")}
	m := map[string]interface{}{"a": inner, "n": vNondetString(0, 1, "x")}
	if vChoose(2) == 1 {
		m["c"] = Map{"d": Map{"e": "1"}}
	}
	c, err := Map(m).Copy()
	vAssert(err == nil, "copy(named): a Map holding Map values can be copied")
	mark := vMark(m)
	for _, k := range []string{"a", "c"} {
		switch cv := c[k].(type) {
		case map[string]interface{}:
			cv["zz"] = "changed"
			for kk := range cv {
				if in, ok := cv[kk].(map[string]interface{}); ok {
					in["zz"] = "changed"
				}
			}
		case Map:
			cv["zz"] = "changed"
			for kk := range cv {
				if in, ok := cv[kk].(Map); ok {
					in["zz"] = "changed"
				}
			}
		}
	}
	vAssertUnchangedSince(mark, "copy(named): mutating the copy leaves the original untouched")
	vCover("named")
}

// Copy of a Map that JSON cannot represent (NaN / infinity): an error, or a copy that
// shares nothing - never a shallow copy
func H_C17_copy_nan() {
	bad := []float64{math.NaN(), math.Inf(1), math.Inf(-1)}[vChoose(3)]
	inner := map[string]interface{}{"c": vNondetString(1, 1, "xy"), "l": []interface{}{"p"}}
	m := map[string]interface{}{"a": bad, "b": inner}
	if vChoose(2) == 1 {
		m = map[string]interface{}{"b": map[string]interface{}{"a": bad, "d": inner}}
	}
	c, err := Map(m).Copy()
	if err == nil {
		vAssert(!vShares(m, map[string]interface{}(c)), "copy(nan): a copy that is returned shares no map or list with the original")
		vCover("copied")
	} else {
		vCover("refused")
	}
}

// the result of one query is not disturbed by a later query on the same Map (decoded Maps:
// their lists were grown by append and have spare capacity)
func H_C17_results() {
	vResetDecOpts()
	c := vNondetString(1, 1, "XY")
	m, err := NewMapXml([]byte("<r><g><k>1</k><k>2</k><k>3</k></g><g><j>J</j><k>" + c + "</k></g><h><k>9</k></h></r>"))
	vAssert(err == nil, "results: decodes")
	mark := vMark(map[string]interface{}(m))
	p1 := []string{"r.g.k", "r.g.*", "r.*.k"}[vChoose(3)]
	p2 := []string{"r.g.k", "r.g.*", "r.*.k", "r.h.k"}[vChoose(4)]
	r1, e1 := m.ValuesForPath(p1)
	keep := append([]interface{}{}, r1...)
	r2, e2 := m.ValuesForPath(p2)
	vAssert(e1 == nil && e2 == nil && len(r2) > 0, "results: queries succeed")
	vAssert(vSameList(r1, keep), "results: the values returned by one query are not altered by a later query")
	vAssertUnchangedSince(mark, "results: the receiver is unchanged")
	vCover("results")
}
