package main

// `symgo check <property> <tier>`: run the property's harnesses, replay counterexamples
// natively, write evidence, print VIOLATION / KNOWN-FINDING lines, set the exit code.

import (
	"bytes"
	"encoding/json"
	"flag"
	"fmt"
	"os"
	"os/exec"
	"path/filepath"
	"runtime"
	"sort"
	"strconv"
	"strings"
	"time"
)

type HarnessCfg struct {
	H        string   `json:"h"`
	Timeout  string   `json:"timeout"`
	MaxPaths int      `json:"max_paths"`
	Covers   []string `json:"covers"`
	Note     string   `json:"note"`
	Optional bool     `json:"optional"`
	Params   map[string]int `json:"params"` // size parameters read by the harness through vParam
}

type PropCfg struct {
	Pkgs        []string     `json:"pkgs"`
	Quick       []HarnessCfg `json:"quick"`
	Thorough    []HarnessCfg `json:"thorough"`
	Bounds      map[string]string `json:"bounds"`
	Assumptions []string     `json:"assumptions"`
	Outside     []string     `json:"outside"`
	Encoded     []string     `json:"encoded"`
}

type Finding struct {
	ID       string `json:"id"`
	Property string `json:"property"`
	Status   string `json:"status"` // known | fixed
	What     string `json:"what"`
	Commit   string `json:"commit,omitempty"`
	Input    string `json:"input,omitempty"`
}

// verifRoot is /verif, or $VERIF_ROOT for background runs from a snapshot (vp run)
var verifRoot = func() string {
	if r := os.Getenv("VERIF_ROOT"); r != "" {
		return r
	}
	return "/verif"
}()

func loadFindings() []Finding {
	b, err := os.ReadFile(filepath.Join(verifRoot, "known_findings.json"))
	if err != nil {
		return nil
	}
	var doc struct {
		Findings []Finding `json:"findings"`
	}
	json.Unmarshal(b, &doc)
	return doc.Findings
}

func cmdCheck(args []string) int {
	fs := flag.NewFlagSet("check", flag.ExitOnError)
	repo := fs.String("repo", "/repo", "repository root")
	workers := fs.Int("j", runtime.NumCPU(), "workers")
	noReplay := fs.Bool("no-replay", false, "skip native replay (debug)")
	cross := fs.Bool("cross", false, "re-discharge recorded obligation queries with cvc5 and z3-new")
	only := fs.String("only", "", "run only this harness (debug)")
	fs.Parse(args)
	if fs.NArg() < 2 {
		fmt.Fprintln(os.Stderr, "usage: symgo check [flags] <property> <quick|thorough>")
		return 2
	}
	prop, tier := fs.Arg(0), fs.Arg(1)
	t0 := time.Now()
	var all map[string]*PropCfg
	b, err := os.ReadFile(filepath.Join(verifRoot, "checks.json"))
	if err != nil {
		fmt.Fprintln(os.Stderr, err)
		return 2
	}
	if err := json.Unmarshal(b, &all); err != nil {
		fmt.Fprintln(os.Stderr, "checks.json:", err)
		return 2
	}
	cfg := all[prop]
	if cfg == nil {
		fmt.Fprintln(os.Stderr, "no such property in checks.json:", prop)
		return 2
	}
	hs := cfg.Quick
	if tier == "thorough" && len(cfg.Thorough) > 0 {
		hs = cfg.Thorough
	}
	if len(cfg.Pkgs) == 0 {
		cfg.Pkgs = []string{"."}
	}
	seed, _ := strconv.Atoi(os.Getenv("VERIF_SEED"))
	e, err := LoadEngine(*repo, filepath.Join(verifRoot, "harness"), cfg.Pkgs)
	if err != nil {
		fmt.Fprintln(os.Stderr, "load:", err)
		return 2
	}
	e.tier = tier
	e.workers = *workers
	e.solverArgv = []string{"z3", "-in"}
	e.seed = seed
	e.samples = 12
	if v := os.Getenv("VERIF_SAMPLES"); v != "" {
		e.samples, _ = strconv.Atoi(v)
	}
	e.loadKnown(filepath.Join(verifRoot, "known_findings.json"))
	workDir := filepath.Join(verifRoot, ".work", prop+"-"+tier)
	os.RemoveAll(workDir)
	os.MkdirAll(workDir, 0o755)
	if *cross || tier == "thorough" {
		e.dumpDir = filepath.Join(workDir, "queries")
		os.MkdirAll(e.dumpDir, 0o755)
	}
	replayDir := filepath.Join(verifRoot, "replays", prop)
	os.RemoveAll(replayDir)
	os.MkdirAll(replayDir, 0o755)

	var runs []*HarnessRun
	var skipped []string
	inconclusive := []string{}
	violations := 0
	knownHits := map[string]int{}
	var violLines []string
	replayed, reproduced := 0, 0
	var rp *Replayer
	sampleOK, sampleDiverged := 0, 0
	for _, hc := range hs {
		if *only != "" && hc.H != *only {
			continue
		}
		to := 10 * time.Minute
		if hc.Timeout != "" {
			if d, err := time.ParseDuration(hc.Timeout); err == nil {
				to = d
			}
		}
		if _, fn := e.findHarness(hc.H); fn == nil && len(e.loadNotes) > 0 && hc.Optional {
			fmt.Fprintf(os.Stderr, "[%s] %s skipped: %s\n", prop, hc.H, strings.Join(e.loadNotes, "; "))
			skipped = append(skipped, hc.H)
			continue
		}
		if cap := os.Getenv("VERIF_HARNESS_TIMEOUT"); cap != "" {
			if d, err := time.ParseDuration(cap); err == nil && d < to {
				to = d
			}
		}
		if violations > 0 && to > time.Minute {
			// a violation has been reproduced already: the verdict is decided, the remaining
			// harnesses are informative and get a short budget
			to = time.Minute
		}
		e.params = hc.Params
		h := e.RunHarness(hc.H, hc.MaxPaths, to)
		h.Params = hc.Params
		runs = append(runs, h)
		fmt.Fprintf(os.Stderr, "[%s] %s: paths=%d completed=%d pruned=%d violations=%d wall=%.1fs queries=%d\n",
			prop, h.Name, h.Paths, h.Completed, h.Pruned, len(h.Viol), h.Wall.Seconds(), h.Solver.Queries)
		for m, n := range h.Unsupp {
			inconclusive = append(inconclusive, fmt.Sprintf("%s: unsupported ×%d: %s", h.Name, n, m))
		}
		for m, n := range h.Limits {
			inconclusive = append(inconclusive, fmt.Sprintf("%s: bound too small (unwinding) ×%d: %s", h.Name, n, m))
		}
		if h.Truncated {
			inconclusive = append(inconclusive, h.Name+": exploration truncated by path/time budget")
		}
		if h.Unknowns > 0 {
			inconclusive = append(inconclusive, fmt.Sprintf("%s: %d solver unknowns on feasibility queries (paths kept)", h.Name, h.Unknowns))
		}
		if h.Solver.Errors > 0 {
			inconclusive = append(inconclusive, fmt.Sprintf("%s: %d solver errors", h.Name, h.Solver.Errors))
		}
		for _, c := range hc.Covers {
			if h.Covers[c] == 0 && len(h.Viol) == 0 {
				inconclusive = append(inconclusive, fmt.Sprintf("%s: cover label %q reached by no feasible path (vacuity guard)", h.Name, c))
			}
		}
		if h.Completed == 0 && len(h.Viol) == 0 {
			inconclusive = append(inconclusive, h.Name+": no path completed")
		}
		for id, n := range h.Known {
			knownHits[id] += n
		}
		// translator validation: run the sampled passing paths natively
		if len(h.SampleTapes) > 0 && !*noReplay {
			if rp == nil {
				rp = NewReplayer(e, workDir)
			}
			ok, div, bad := rp.ValidateSamples(pkgDirOf(e, h), h.Name, h.SampleTapes, filepath.Join(workDir, "samples"))
			sampleOK += ok
			sampleDiverged += div
			for _, b := range bad {
				inconclusive = append(inconclusive, fmt.Sprintf("%s: translator validation failed: a path the engine completed with all assertions proved fails natively on the same inputs (%s)", h.Name, b))
			}
		}
		// replay violations
		for i, v := range h.Viol {
			tapePath := filepath.Join(replayDir, fmt.Sprintf("%s-%d.json", h.Name, i))
			doc := map[string]interface{}{"property": prop, "harness": h.Name, "pkg": pkgDirOf(e, h), "kind": v.Kind, "label": v.Label,
				"msg": v.Msg, "tape": v.Tape, "trail": v.Trail, "tier": tier, "params": hc.Params}
			jb, _ := json.MarshalIndent(doc, "", " ")
			os.WriteFile(tapePath, jb, 0o644)
			if *noReplay {
				violations++
				violLines = append(violLines, fmt.Sprintf("VIOLATION property=%s replay=%s", prop, tapePath))
				continue
			}
			if rp == nil {
				rp = NewReplayer(e, workDir)
			}
			replayed++
			ok, detail := rp.Replay(pkgDirOf(e, h), h.Name, tapePath, v)
			if ok {
				reproduced++
				violations++
				violLines = append(violLines, fmt.Sprintf("VIOLATION property=%s replay=%s", prop, tapePath))
				fmt.Fprintf(os.Stderr, "  violation reproduced natively: %s [%s] %s\n", h.Name, v.Label, detail)
			} else {
				inconclusive = append(inconclusive, fmt.Sprintf("%s: counterexample for %q did not reproduce natively (%s): engine/model defect, tape %s", h.Name, v.Label, detail, tapePath))
			}
		}
	}
	// cross-solver re-discharge
	crossN, crossBad := 0, 0
	if e.dumpDir != "" {
		crossN, crossBad = crossCheck(e.dumpDir)
		if crossBad > 0 {
			inconclusive = append(inconclusive, fmt.Sprintf("%d cross-solver disagreements", crossBad))
		}
	}
	// known findings
	for _, f := range loadFindings() {
		if f.Property != prop {
			continue
		}
		if f.Status == "known" {
			fmt.Printf("KNOWN-FINDING: property=%s %s [%s] (witnessed on %d paths this run)\n", prop, f.What, f.ID, knownHits[f.ID])
		}
	}
	if len(skipped) > 0 {
		cfg.Assumptions = append(cfg.Assumptions, "harnesses skipped on this tree (their unexported-name file no longer type-checks): "+strings.Join(skipped, ", "))
	}
	evSampleOK, evSampleDiv = sampleOK, sampleDiverged
	writeEvidence(prop, tier, seed, cfg, runs, violations, replayed, reproduced, crossN, crossBad, inconclusive, time.Since(t0), e)
	os.RemoveAll(workDir)
	for _, l := range violLines {
		fmt.Println(l)
	}
	if violations > 0 {
		return 1
	}
	if len(inconclusive) > 0 {
		for _, s := range inconclusive {
			fmt.Fprintln(os.Stderr, "INCONCLUSIVE:", s)
		}
		return 2
	}
	fmt.Printf("OK property=%s tier=%s harnesses=%d wall=%.1fs\n", prop, tier, len(runs), time.Since(t0).Seconds())
	return 0
}

func pkgDirOf(e *Engine, h *HarnessRun) string {
	if h.Pkg == nil {
		return "."
	}
	p := h.Pkg.Pkg.Path()
	const root = "github.com/clbanning/mxj/v2"
	if p == root {
		return "."
	}
	return strings.TrimPrefix(p, root+"/")
}

func writeEvidence(prop, tier string, seed int, cfg *PropCfg, runs []*HarnessRun, violations, replayed, reproduced, crossN, crossBad int,
	inconclusive []string, wall time.Duration, e *Engine) {
	states, transitions := 0, 0
	var samples []interface{}
	hdet := []interface{}{}
	funcs := map[string]int{}
	var steps int64
	queries := map[string]int{}
	var solverTime time.Duration
	var maxQ time.Duration
	sat, unsat, unknown := 0, 0, 0
	exhaustive := true
	for _, h := range runs {
		states += h.Completed
		transitions += h.Decisions
		steps += h.Steps
		for _, s := range h.Samples {
			if len(samples) < 6 {
				samples = append(samples, h.Name+": "+s)
			}
		}
		for f, n := range h.Funcs {
			funcs[f] += n
		}
		for k, v := range h.Solver.ByKind {
			queries[k] += v
		}
		solverTime += h.Solver.Time
		if h.Solver.MaxTime > maxQ {
			maxQ = h.Solver.MaxTime
		}
		sat += h.Solver.Sat
		unsat += h.Solver.Unsat
		unknown += h.Solver.Unknown
		if h.Truncated || len(h.Unsupp) > 0 || len(h.Limits) > 0 {
			exhaustive = false
		}
		hdet = append(hdet, map[string]interface{}{
			"harness": h.Name, "params": h.Params, "paths": h.Paths, "completed": h.Completed, "pruned_by_assumption": h.Pruned,
			"infeasible": h.Infeas, "ended_in_panic": h.Panics, "violations": len(h.Viol), "decisions": h.Decisions,
			"instructions": h.Steps, "wall_s": h.Wall.Seconds(), "cover_labels": h.Covers, "assertions_checked": h.Asserts,
			"known_finding_hits": h.Known, "unsupported": h.Unsupp, "unwinding_failures": h.Limits, "truncated": h.Truncated,
		})
	}
	if len(samples) == 0 {
		samples = append(samples, "no completed path")
	}
	var encoded []string
	for f := range funcs {
		if strings.Contains(f, "clbanning/mxj") && !strings.Contains(f, ".v") && !strings.Contains(f, ".m_") && !strings.Contains(f, ".H_") && !strings.Contains(f, ".ref") {
			encoded = append(encoded, fmt.Sprintf("%s ×%d", strings.ReplaceAll(f, "github.com/clbanning/mxj/v2", "mxj"), funcs[f]))
		}
	}
	sort.Strings(encoded)
	var models []string
	for f := range funcs {
		if strings.Contains(f, ".m_") {
			models = append(models, f[strings.Index(f, ".m_")+1:])
		}
	}
	sort.Strings(models)
	cov := map[string]interface{}{
		"states":                        max1(states),
		"transitions":                   max1(transitions),
		"traces_validated_against_impl": reproduced + evSampleOK,
		"passing_paths_validated_natively": evSampleOK,
		"passing_paths_not_comparable":     evSampleDiv,
		"samples":                       samples,
		"exhaustive":                    exhaustive && len(inconclusive) == 0,
		"explanation": "states = feasible paths of the harnesses explored to completion by symbolic execution of the go/ssa form of the current /repo tree; " +
			"transitions = fork decisions (branch on symbolic condition, length/kind/size choice, map-entry match); every assertion, panic obligation and frame obligation on every path was discharged by z3 (unsat) or produced a model that was replayed natively",
		"functions_encoded":         encoded,
		"stdlib_models_used":        models,
		"instructions_interpreted":  steps,
		"bounds":                    cfg.Bounds,
		"outside_claim":             cfg.Outside,
		"harnesses":                 hdet,
		"solver":                    map[string]interface{}{"name": "z3 4.8.12 (-in, incremental push/pop)", "queries_by_kind": queries, "sat": sat, "unsat": unsat, "unknown": unknown, "time_s": solverTime.Seconds(), "max_query_ms": maxQ.Milliseconds()},
		"counterexamples_replayed":  replayed,
		"counterexamples_reproduced": reproduced,
		"cross_solver_queries":      crossN,
		"cross_solver_disagreements": crossBad,
		"inconclusive":              inconclusive,
	}
	ev := map[string]interface{}{
		"property_id": prop, "tier": tier, "seed": seed, "level": "model_checking", "coverage": cov,
		"assumptions": cfg.Assumptions, "wall_s": wall.Seconds(), "violations": violations,
	}
	evDir := filepath.Join(verifRoot, "evidence")
	if d := os.Getenv("VERIF_EVIDENCE_DIR"); d != "" {
		evDir = d // evaluation of seeded changes: keep the registered evidence untouched
	}
	os.MkdirAll(evDir, 0o755)
	b, _ := json.MarshalIndent(ev, "", " ")
	os.WriteFile(filepath.Join(evDir, prop+".json"), b, 0o644)
}

var evSampleOK, evSampleDiv int

func max1(n int) int {
	if n < 1 {
		return 1
	}
	return n
}

// ---- native replay ----

type Replayer struct {
	e       *Engine
	workDir string
	bins    map[string]string
	err     map[string]string
}

func NewReplayer(e *Engine, workDir string) *Replayer {
	return &Replayer{e: e, workDir: workDir, bins: map[string]string{}, err: map[string]string{}}
}

const replayTestSrc = `package %s

import (
	"fmt"
	"os"
	"strconv"
	"strings"
	"testing"
)

func TestVerifReplay(t *testing.T) {
	name := os.Getenv("VERIF_HARNESS")
	if list := os.Getenv("VERIF_TAPELIST"); list != "" {
		b, _ := os.ReadFile(list)
		for i, p := range strings.Fields(string(b)) {
			vSetTapeFile(p)
			var fails []string
			var pmsg, stop string
			// several runs per tape: Go randomises map iteration, the property must hold under every order
			for k := 0; k < 12; k++ {
				fails, pmsg, stop = vRunReplay(name)
				if len(fails) > 0 || pmsg != "" || stop != "" {
					break
				}
			}
			fmt.Printf("VERIF-SAMPLE %%d fails=%%q panic=%%q stop=%%q\n", i, fails, pmsg, stop)
		}
		return
	}
	n, _ := strconv.Atoi(os.Getenv("VERIF_REPEAT"))
	if n < 1 {
		n = 1
	}
	for i := 0; i < n; i++ {
		fails, pmsg, stop := vRunReplay(name)
		if len(fails) > 0 || pmsg != "" || i == n-1 {
			fmt.Printf("VERIF-REPLAY iter=%%d fails=%%q panic=%%q stop=%%q\n", i, fails, pmsg, stop)
			return
		}
	}
}
`

func goEnv() []string {
	return append(os.Environ(), "GOFLAGS=-mod=mod", "GOPROXY=off", "GOSUMDB=off", "GOTOOLCHAIN=local")
}

func (r *Replayer) build(pkgDir string) (string, string) {
	return r.buildMode(pkgDir, false)
}

func (r *Replayer) buildMode(pkgDir string, race bool) (string, string) {
	key := pkgDir
	if race {
		key += "#race"
	}
	if b, ok := r.bins[key]; ok {
		return b, r.err[key]
	}
	ovDir := filepath.Join(r.workDir, "overlay", strings.ReplaceAll(key, "/", "_"))
	os.MkdirAll(ovDir, 0o755)
	repl := map[string]string{}
	prefix := filepath.Join(r.e.repo, pkgDir) + string(filepath.Separator)
	if pkgDir == "." {
		prefix = r.e.repo + string(filepath.Separator)
	}
	for virt, real := range r.e.overlay {
		if filepath.Dir(virt)+string(filepath.Separator) != prefix {
			continue
		}
		if strings.Contains(filepath.Base(virt), "zz_verif_common_") {
			src, _ := os.ReadFile(real)
			tmp := filepath.Join(ovDir, filepath.Base(virt))
			os.WriteFile(tmp, rewritePackageClause(src, pkgNameFor(pkgDir)), 0o644)
			repl[virt] = tmp
		} else {
			repl[virt] = real
		}
	}
	tf := filepath.Join(ovDir, "zz_verif_replay_test.go")
	os.WriteFile(tf, []byte(fmt.Sprintf(replayTestSrc, pkgNameFor(pkgDir))), 0o644)
	repl[filepath.Join(r.e.repo, pkgDir, "zz_verif_replay_test.go")] = tf
	ovJSON := filepath.Join(ovDir, "overlay.json")
	jb, _ := json.Marshal(map[string]interface{}{"Replace": repl})
	os.WriteFile(ovJSON, jb, 0o644)
	bin := filepath.Join(ovDir, "replay.test")
	args := []string{"test", "-c", "-vet=off", "-overlay", ovJSON, "-o", bin}
	if race {
		args = append(args, "-race")
	}
	args = append(args, ".")
	cmd := exec.Command("go", args...)
	cmd.Dir = filepath.Join(r.e.repo, pkgDir)
	cmd.Env = goEnv()
	out, err := cmd.CombinedOutput()
	r.bins[key] = bin
	if err != nil {
		r.err[key] = "native build failed: " + string(out)
	}
	return bin, r.err[key]
}

func (r *Replayer) Replay(pkgDir, harness, tape string, v *Violation) (bool, string) {
	race := strings.HasPrefix(v.Label, "concurrency:")
	bin, berr := r.buildMode(pkgDir, race)
	if berr != "" {
		return false, berr
	}
	cmd := exec.Command(bin, "-test.run", "^TestVerifReplay$", "-test.count=1", "-test.timeout=120s")
	cmd.Dir = filepath.Join(r.e.repo, pkgDir)
	env := append(goEnv(), "VERIF_TAPE="+tape, "VERIF_HARNESS="+harness, "VERIF_REPEAT=300", "VERIF_TIER="+r.e.tier, "VERIF_PARAMS="+paramsEnv(r.e.params))
	for id := range r.e.known {
		env = append(env, "VERIF_KNOWN_"+id+"=1")
	}
	cmd.Env = env
	out, _ := cmd.CombinedOutput()
	line := ""
	for _, l := range strings.Split(string(out), "\n") {
		if strings.HasPrefix(l, "VERIF-REPLAY") {
			line = l
		}
	}
	if race {
		// the footprint violation is confirmed natively by the race detector: the
		// operation runs in two goroutines over the shared state
		if strings.Contains(string(out), "DATA RACE") {
			return true, "race detector: DATA RACE reported for the concurrent native run"
		}
		return false, "race detector reported nothing: " + line
	}
	if line == "" {
		tail := string(out)
		if len(tail) > 600 {
			tail = tail[len(tail)-600:]
		}
		// a crash of the test binary itself (fatal error, os.Exit) counts as a panic reproduction
		if v.Kind == "panic" && (strings.Contains(tail, "panic:") || strings.Contains(tail, "fatal error")) {
			return true, "native run crashed: " + firstLine(tail)
		}
		return false, "no replay verdict: " + tail
	}
	switch v.Kind {
	case "panic":
		if !strings.Contains(line, `panic=""`) {
			return true, line
		}
	default:
		if strings.Contains(line, strconv.Quote(v.Label)) {
			return true, line
		}
	}
	return false, line
}

// ValidateSamples runs sampled passing paths natively: ok = passed natively as well,
// diverged = the native run took a different route through the harness (tape mismatch,
// e.g. Go's random map order), bad = native assertion failure or panic.
func (r *Replayer) ValidateSamples(pkgDir, harness string, tapes [][]interface{}, dir string) (ok, diverged int, bad []string) {
	bin, berr := r.build(pkgDir)
	if berr != "" {
		return 0, 0, []string{berr}
	}
	os.MkdirAll(dir, 0o755)
	var paths []string
	for i, t := range tapes {
		p := filepath.Join(dir, fmt.Sprintf("%s-%d.json", harness, i))
		jb, _ := json.Marshal(map[string]interface{}{"tape": t})
		os.WriteFile(p, jb, 0o644)
		paths = append(paths, p)
	}
	list := filepath.Join(dir, harness+".list")
	os.WriteFile(list, []byte(strings.Join(paths, "\n")), 0o644)
	cmd := exec.Command(bin, "-test.run", "^TestVerifReplay$", "-test.count=1", "-test.timeout=300s")
	cmd.Dir = filepath.Join(r.e.repo, pkgDir)
	env := append(goEnv(), "VERIF_TAPELIST="+list, "VERIF_HARNESS="+harness, "VERIF_TIER="+r.e.tier, "VERIF_PARAMS="+paramsEnv(r.e.params))
	for id := range r.e.known {
		env = append(env, "VERIF_KNOWN_"+id+"=1")
	}
	cmd.Env = env
	out, _ := cmd.CombinedOutput()
	seen := 0
	for _, l := range strings.Split(string(out), "\n") {
		if !strings.HasPrefix(l, "VERIF-SAMPLE") {
			continue
		}
		seen++
		switch {
		case strings.Contains(l, `fails=[]`) && strings.Contains(l, `panic=""`) && strings.Contains(l, `stop=""`):
			ok++
		case strings.Contains(l, "tape kind mismatch") || strings.Contains(l, "tape exhausted") || strings.Contains(l, "assumption not satisfied"):
			diverged++
		default:
			bad = append(bad, l)
		}
	}
	if seen < len(tapes) {
		tail := string(out)
		if len(tail) > 300 {
			tail = tail[len(tail)-300:]
		}
		bad = append(bad, fmt.Sprintf("native sample run ended after %d of %d samples: %s", seen, len(tapes), tail))
	}
	return
}

func firstLine(s string) string {
	for _, l := range strings.Split(s, "\n") {
		if strings.Contains(l, "panic:") || strings.Contains(l, "fatal error") {
			return l
		}
	}
	return ""
}

func cmdReplay(args []string) int {
	fs := flag.NewFlagSet("replay", flag.ExitOnError)
	repo := fs.String("repo", "/repo", "repository root")
	fs.Parse(args)
	if fs.NArg() < 1 {
		fmt.Fprintln(os.Stderr, "usage: symgo replay <tape.json>")
		return 2
	}
	b, err := os.ReadFile(fs.Arg(0))
	if err != nil {
		fmt.Fprintln(os.Stderr, err)
		return 2
	}
	var doc struct {
		Property, Harness, Pkg, Kind, Label, Msg, Tier string
		Params                                       map[string]int
	}
	json.Unmarshal(b, &doc)
	e, err := LoadEngine(*repo, filepath.Join(verifRoot, "harness"), []string{doc.Pkg})
	if err != nil {
		fmt.Fprintln(os.Stderr, err)
		return 2
	}
	e.loadKnown(filepath.Join(verifRoot, "known_findings.json"))
	e.tier, e.params = doc.Tier, doc.Params
	wd, _ := os.MkdirTemp("", "symgo-replay")
	defer os.RemoveAll(wd)
	rp := NewReplayer(e, wd)
	abs, _ := filepath.Abs(fs.Arg(0))
	ok, detail := rp.Replay(doc.Pkg, doc.Harness, abs, &Violation{Kind: doc.Kind, Label: doc.Label})
	fmt.Println(detail)
	if ok {
		fmt.Printf("VIOLATION property=%s replay=%s\n", doc.Property, abs)
		return 1
	}
	fmt.Println("not reproduced")
	return 0
}

func paramsEnv(p map[string]int) string {
	var ks []string
	for k := range p {
		ks = append(ks, k)
	}
	sort.Strings(ks)
	var out []string
	for _, k := range ks {
		out = append(out, k+"="+strconv.Itoa(p[k]))
	}
	return strings.Join(out, ",")
}

// ---- cross-solver re-discharge of recorded obligation queries ----

func crossCheck(dir string) (n, bad int) {
	files, _ := filepath.Glob(filepath.Join(dir, "*", "*.smt2"))
	sort.Strings(files)
	type job struct{ f, expect string }
	jobs := make(chan job, len(files))
	for _, f := range files {
		exp := "unsat"
		if strings.HasSuffix(f, ".sat.smt2") {
			exp = "sat"
		}
		jobs <- job{f, exp}
	}
	close(jobs)
	type res struct{ n, bad int }
	out := make(chan res, 16)
	for w := 0; w < 8; w++ {
		go func() {
			r := res{}
			for j := range jobs {
				for _, solver := range [][]string{{"cvc5", "--incremental", "--tlimit=20000"}, {"z3-new", "-T:20"}} {
					cmd := exec.Command(solver[0], append(solver[1:], j.f)...)
					var ob bytes.Buffer
					cmd.Stdout = &ob
					cmd.Run()
					verdict := ""
					for _, l := range strings.Split(ob.String(), "\n") {
						l = strings.TrimSpace(l)
						if l == "sat" || l == "unsat" || l == "unknown" {
							verdict = l
						}
					}
					r.n++
					if verdict != j.expect && verdict != "unknown" && verdict != "" {
						r.bad++
						fmt.Fprintf(os.Stderr, "cross-solver disagreement: %s says %s, z3 said %s on %s\n", solver[0], verdict, j.expect, j.f)
					}
				}
			}
			out <- r
		}()
	}
	for w := 0; w < 8; w++ {
		r := <-out
		n += r.n
		bad += r.bad
	}
	return
}
