package mxj

// Snapshot of every package-level option of mxj, by name (unexported identifiers). If a
// changed tree renames these variables this file no longer type-checks; the loader then
// drops the harnesses that need it (H_C18_step, H_C18_restore) with a notice and the
// public-API harnesses decide alone.

type vOptState struct {
	textK, seqK, commentK, attrK, directiveK, procinstK, targetK, instK string
	includeTagSeqNum, lowerCase, disableTrimWhiteSpace                   bool
	trimRunes, attrPrefix                                                string
	lenAttrPrefix                                                        int
	snakeCaseKeys, castToInt, handleXMPPStreamTag, decodeSimpleValuesAsMap bool
	castNanInf, castToFloat, castToBool                                  bool
	skipFuncSet                                                          bool
	useGoXmlEmptyElemSyntax, xmlCheckIsValid                             bool
	xmlEscapeChars, xmlEscapeCharsDecoder                                bool
	jsonUseNumber, useDotNotation                                        bool
	defaultArraySize                                                     int
	fieldSep                                                             string
}

func vSnapOpts() vOptState {
	return vOptState{textK, seqK, commentK, attrK, directiveK, procinstK, targetK, instK,
		includeTagSeqNum, lowerCase, disableTrimWhiteSpace, trimRunes, attrPrefix, lenAttrPrefix,
		snakeCaseKeys, castToInt, handleXMPPStreamTag, decodeSimpleValuesAsMap,
		castNanInf, castToFloat, castToBool, checkTagToSkip != nil,
		useGoXmlEmptyElemSyntax, xmlCheckIsValid, xmlEscapeChars, xmlEscapeCharsDecoder,
		JsonUseNumber, useDotNotation, defaultArraySize, fieldSep}
}

// vInvOpts: the representation invariant of the option state.
func vInvOpts(s vOptState) bool {
	if s.lenAttrPrefix != len(s.attrPrefix) {
		return false
	}
	if s.disableTrimWhiteSpace && s.trimRunes != "\t\r\b\n" {
		return false
	}
	if !s.disableTrimWhiteSpace && s.trimRunes != "\t\r\b\n " {
		return false
	}
	if s.xmlEscapeChars && s.xmlEscapeCharsDecoder {
		return false
	}
	if len(s.textK) < 4 {
		return false
	}
	p := s.textK[:len(s.textK)-4] // any prefix string, also empty, long, or made of letters
	if s.textK != p+"text" || s.seqK != p+"seq" || s.commentK != p+"comment" || s.attrK != p+"attr" ||
		s.directiveK != p+"directive" || s.procinstK != p+"procinst" || s.targetK != p+"target" || s.instK != p+"inst" {
		return false
	}
	if s.defaultArraySize < 32 || s.fieldSep == "" {
		return false
	}
	return true
}

// vNondetOptState installs an arbitrary option state that satisfies the invariant.
func vNondetOptState() {
	p := vNondetString(0, 2, "#_at")
	textK, seqK, commentK, attrK = p+"text", p+"seq", p+"comment", p+"attr"
	directiveK, procinstK, targetK, instK = p+"directive", p+"procinst", p+"target", p+"inst"
	includeTagSeqNum, lowerCase, snakeCaseKeys = vNondetBool(), vNondetBool(), vNondetBool()
	disableTrimWhiteSpace = vNondetBool()
	if disableTrimWhiteSpace {
		trimRunes = "\t\r\b\n"
	} else {
		trimRunes = "\t\r\b\n "
	}
	attrPrefix = vNondetString(0, 2, "-@a")
	lenAttrPrefix = len(attrPrefix)
	castToInt, handleXMPPStreamTag, decodeSimpleValuesAsMap = vNondetBool(), vNondetBool(), vNondetBool()
	castNanInf, castToFloat, castToBool = vNondetBool(), vNondetBool(), vNondetBool()
	if vNondetBool() {
		checkTagToSkip = func(string) bool { return false }
	} else {
		checkTagToSkip = nil
	}
	useGoXmlEmptyElemSyntax, xmlCheckIsValid = vNondetBool(), vNondetBool()
	xmlEscapeChars = vNondetBool()
	xmlEscapeCharsDecoder = vNondetBool()
	vAssume(!(xmlEscapeChars && xmlEscapeCharsDecoder))
	JsonUseNumber, useDotNotation = vNondetBool(), vNondetBool()
	defaultArraySize = 32 + vChoose(2)*8
	fieldSep = vNondetString(1, 1, ":|")
}

func init() {
	vHarnesses["H_C18_step"] = H_C18_step
	vHarnesses["H_C18_restore"] = H_C18_restore
}

// vExpectStep: the documented effect of setter i on a snapshot (pure function of the
// statement: explicit form sets, argument-less form toggles - disables trimming for the
// white-space switch, resets the field separator; the two escaping switches exclude each
// other; nothing else changes).
func vExpectStep(s vOptState, i int, form int, b bool, arg string) vOptState {
	tog := func(cur bool) bool {
		if form == 0 {
			return b
		}
		return !cur
	}
	switch i {
	case 0:
		s.attrPrefix, s.lenAttrPrefix = arg, len(arg)
	case 1:
		if b {
			s.attrPrefix, s.lenAttrPrefix = "-", 1
		} else {
			s.attrPrefix, s.lenAttrPrefix = "", 0
		}
	case 2:
		s.includeTagSeqNum = tog(s.includeTagSeqNum)
	case 3:
		s.lowerCase = tog(s.lowerCase)
	case 4:
		if form == 0 {
			s.disableTrimWhiteSpace = b
		} else {
			s.disableTrimWhiteSpace = true
		}
		if s.disableTrimWhiteSpace {
			s.trimRunes = "\t\r\b\n"
		} else {
			s.trimRunes = "\t\r\b\n "
		}
	case 5:
		s.snakeCaseKeys = tog(s.snakeCaseKeys)
	case 6:
		s.castToInt = tog(s.castToInt)
	case 7:
		s.handleXMPPStreamTag = tog(s.handleXMPPStreamTag)
	case 8:
		s.decodeSimpleValuesAsMap = tog(s.decodeSimpleValuesAsMap)
	case 9:
		s.castNanInf = tog(s.castNanInf)
	case 10:
		s.castToFloat = tog(s.castToFloat)
	case 11:
		s.castToBool = tog(s.castToBool)
	case 12:
		s.skipFuncSet = b
	case 13:
		s.useGoXmlEmptyElemSyntax = b
	case 14:
		s.xmlCheckIsValid = tog(s.xmlCheckIsValid)
	case 15:
		want := tog(s.xmlEscapeChars)
		s.xmlEscapeChars = want && !s.xmlEscapeCharsDecoder
	case 16:
		s.xmlEscapeCharsDecoder = tog(s.xmlEscapeCharsDecoder)
		if s.xmlEscapeCharsDecoder {
			s.xmlEscapeChars = false
		}
	case 17:
		p := arg
		s.textK, s.seqK, s.commentK, s.attrK = p+"text", p+"seq", p+"comment", p+"attr"
		s.directiveK, s.procinstK, s.targetK, s.instK = p+"directive", p+"procinst", p+"target", p+"inst"
	case 18:
		s.useDotNotation = tog(s.useDotNotation)
	case 19:
		if form == 0 {
			s.fieldSep = arg[:1]
		} else {
			s.fieldSep = ":"
		}
	default:
		if b {
			s.defaultArraySize = 40
		} else {
			s.defaultArraySize = 32
		}
	}
	return s
}

// (a) inductive step: from ANY state satisfying the invariant, one setter call has exactly
// its documented effect, preserves the invariant and is idempotent for explicit arguments
func H_C18_step() {
	vNondetOptState()
	pre := vSnapOpts()
	vAssume(vInvOpts(pre))
	i := vChoose(vNumSetters)
	form := vChoose(2)
	b := vNondetBool()
	var arg string
	switch i {
	case 0:
		arg = vNondetString(0, 2, "-@a")
	case 17:
		arg = vNondetString(0, 2, "#_at")
	default:
		arg = vNondetString(1, 1, ":|;")
	}
	vCallSetter(i, form, b, arg)
	post := vSnapOpts()
	want := vExpectStep(pre, i, form, b, arg)
	vAssert(post == want, "options: a setter has exactly its documented effect and changes no other option")
	vAssert(vInvOpts(post), "options: every setter preserves the consistency of the option state")
	if form == 0 {
		vCallSetter(i, form, b, arg)
		vAssert(vSnapOpts() == post, "options: a setter called with an explicit value is idempotent")
		vCover("explicit")
	} else {
		vCover("argless")
	}
	vRestoreDefaults()
}

// (b) from ANY consistent state the restore sequence yields exactly the initial state
func H_C18_restore() {
	initial := vSnapOpts()
	vNondetOptState()
	vAssume(vInvOpts(vSnapOpts()))
	vRestoreDefaults()
	vAssert(vSnapOpts() == initial, "options: setting every option back to its default restores the state of a fresh process")
	vCover("restore")
}

