package mxj

func init() {
	vHarnesses["H_X_decode"] = H_X_decode
}

func H_X_decode() {
	k := vNondetString(1, 1, "ab")
	v := vNondetString(1, 1, "xy")
	doc := []byte("<r " + k + "=\"1\"><" + k + ">" + v + "</" + k + "><c/></r>")
	m, err := NewMapXml(doc)
	vAssert(err == nil, "probe: decodes")
	r, ok := m["r"].(map[string]interface{})
	vAssert(ok, "probe: root is a map")
	vAssert(r["-"+k] == "1", "probe: attribute")
	vAssert(r[k] == v, "probe: child text")
	vAssert(r["c"] == "", "probe: empty element")
	vCover("done")
}

func init() { vHarnesses["H_X_encode"] = H_X_encode }

func H_X_encode() {
	k := vNondetString(1, 1, "ab")
	v := vNondetString(1, 1, "xy<")
	XMLEscapeChars(true)
	m := Map{"r": map[string]interface{}{"-" + k: "1", k: v, "c": "", "l": []interface{}{"p", "q"}}}
	b, err := m.Xml()
	vAssert(err == nil, "probe: encodes")
	m2, err2 := NewMapXml(b)
	vAssert(err2 == nil, "probe: re-decodes")
	r, ok := m2["r"].(map[string]interface{})
	vAssert(ok, "probe: root is a map")
	vAssert(r["-"+k] == "1", "probe: attribute")
	vAssert(r[k] == v, "probe: child text")
	vAssert(r["c"] == "", "probe: empty element")
	bi, _ := m.XmlIndent("", "  ")
	m3, err3 := NewMapXml(bi)
	vAssert(err3 == nil, "probe: indented re-decodes")
	r3, _ := m3["r"].(map[string]interface{})
	vAssert(r3[k] == v, "probe: child text (indent)")
	vCover("done")
}
