package mxj

// Reference semantics of paths (DESIGN.md Appendix A.1), written as frontier
// computations from the property statement, not from the implementation.

type vStep struct {
	key  string
	wild bool
	idx  int // -1: no index
}

func refMembers(F []interface{}) []interface{} {
	var out []interface{}
	for _, x := range F {
		if l, ok := x.([]interface{}); ok {
			out = append(out, l...)
		} else {
			out = append(out, x)
		}
	}
	return out
}

func refStepKey(k string, x interface{}) []interface{} {
	switch c := x.(type) {
	case map[string]interface{}:
		if v, ok := c[k]; ok {
			return []interface{}{v}
		}
	case []interface{}:
		var out []interface{}
		for _, mem := range c {
			if mm, ok := mem.(map[string]interface{}); ok {
				if v, ok := mm[k]; ok {
					out = append(out, v)
				}
			}
		}
		return out
	}
	return nil
}

func refStepWild(x interface{}) []interface{} {
	var out []interface{}
	switch c := x.(type) {
	case map[string]interface{}:
		for _, v := range c {
			out = append(out, v)
		}
	case []interface{}:
		for _, mem := range c {
			if mm, ok := mem.(map[string]interface{}); ok {
				for _, v := range mm {
					out = append(out, v)
				}
			} else {
				out = append(out, mem)
			}
		}
	}
	return out
}

func refStepIdx(k string, i int, x interface{}) []interface{} {
	var out []interface{}
	for _, p := range refMembers([]interface{}{x}) {
		pm, ok := p.(map[string]interface{})
		if !ok {
			continue
		}
		L := refMembers(refStepKey(k, pm))
		if i < len(L) {
			out = append(out, L[i])
		}
	}
	return out
}

func refDenote(steps []vStep, m map[string]interface{}) []interface{} {
	F := []interface{}{interface{}(m)}
	for _, s := range steps {
		var N []interface{}
		for _, x := range F {
			switch {
			case s.idx >= 0:
				N = append(N, refStepIdx(s.key, s.idx, x)...)
			case s.wild:
				N = append(N, refStepWild(x)...)
			default:
				N = append(N, refStepKey(s.key, x)...)
			}
		}
		F = N
	}
	return refMembers(F)
}

// vNondetSteps draws a path of n steps; keys are 1 byte over alpha; idxMax < 0 disables
// indexed steps; wildOK enables '*'.
func vNondetSteps(n int, alpha string, wildOK bool, idxMax int) ([]vStep, string, bool) {
	steps := make([]vStep, n)
	path := ""
	hasWild := false
	for i := range steps {
		kinds := 1
		if wildOK {
			kinds++
		}
		if idxMax >= 0 {
			kinds++
		}
		k := vChoose(kinds)
		if !wildOK && k >= 1 {
			k++ // skip the wildcard slot
		}
		seg := ""
		switch k {
		case 0:
			steps[i] = vStep{key: vNondetString(1, 1, alpha), idx: -1}
			seg = steps[i].key
		case 1:
			steps[i] = vStep{wild: true, idx: -1}
			seg = "*"
			hasWild = true
		default:
			ix := vChoose(idxMax + 1)
			steps[i] = vStep{key: vNondetString(1, 1, alpha), idx: ix}
			seg = steps[i].key + "[" + string(rune('0'+ix)) + "]"
		}
		if i > 0 {
			path += "."
		}
		path += seg
	}
	return steps, path, hasWild
}

// refFrontier is refDenote without the final flattening of lists.
func refFrontier(steps []vStep, m map[string]interface{}) []interface{} {
	F := []interface{}{interface{}(m)}
	for _, s := range steps {
		var N []interface{}
		for _, x := range F {
			switch {
			case s.idx >= 0:
				N = append(N, refStepIdx(s.key, s.idx, x)...)
			case s.wild:
				N = append(N, refStepWild(x)...)
			default:
				N = append(N, refStepKey(s.key, x)...)
			}
		}
		F = N
	}
	return F
}
