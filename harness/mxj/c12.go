package mxj

import "strings"

func init() {
	vHarnesses["H_C12_newmap"] = H_C12_newmap
	vHarnesses["H_C12_overlap"] = H_C12_overlap
	vHarnesses["H_C12_malformed"] = H_C12_malformed
	vHarnesses["H_C12_overlap_deep"] = H_C12_overlap_deep
	vHarnesses["H_C12_blank_keys"] = H_C12_blank_keys
}

type vStored struct {
	segs []string
	vals []interface{}
	wild bool // the old path has a wildcard: the order of its values is not specified
}

// vNondetNewPath: a dot path of 1-2 one-byte segments, optionally with a trailing dot.
var vNewPathMax = 2

func vNondetNewPath(alpha string) ([]string, string) {
	n := 1 + vChoose(vNewPathMax)
	segs := make([]string, n)
	for i := range segs {
		segs[i] = vNondetString(1, 1, alpha)
	}
	p := strings.Join(segs, ".")
	if vChoose(2) == 1 {
		p += "."
	}
	return segs, p
}

func vIsPrefix(a, b []string) bool {
	if len(a) > len(b) {
		return false
	}
	for i := range a {
		if a[i] != b[i] {
			return false
		}
	}
	return true
}

func vC12(spec vSpec, maxPairs int, allowOverlap bool, wildOK bool, idxMax int) {
	SetFieldSeparator([]string{":", "|"}[vChoose(2)]) // the key pair syntax is old:new whatever the sub-key separator
	defer SetFieldSeparator()
	m := vNondetMap(spec)
	np := 1 + vChoose(maxPairs)
	var pairs []string
	var stored []vStored
	for i := 0; i < np; i++ {
		ns := 1 + vChoose(2)
		steps, old, hasWild := vNondetSteps(ns, "ab", wildOK, idxMax)
		plain := !hasWild
		for _, s := range steps {
			if s.idx >= 0 {
				plain = false
			}
		}
		var segs []string
		var pair string
		if plain && vChoose(2) == 0 {
			// "old" is shorthand for "old:old"
			pair = old
			for _, s := range steps {
				segs = append(segs, s.key)
			}
		} else {
			var np string
			segs, np = vNondetNewPath("nmab")
			pair = old + ":" + np
		}
		pairs = append(pairs, pair)
		V := refDenote(steps, m)
		if len(V) > 0 {
			stored = append(stored, vStored{segs, V, hasWild})
		}
	}
	overlap := false
	for i := range stored {
		for j := range stored {
			if i != j && vIsPrefix(stored[i].segs, stored[j].segs) {
				overlap = true
			}
		}
	}
	if !allowOverlap {
		vAssume(!overlap)
	}
	mark := vMark(m)
	res, err := Map(m).NewMap(pairs...)
	vAssert(err == nil, "newmap: well-formed pairs give no error")
	vAssertUnchangedSince(mark, "newmap: the receiver is never modified")
	if overlap {
		vCover("overlap")
		return
	}
	vCover("disjoint")
	// content: exactly the requested projection
	entries := 0
	for _, st := range stored {
		var cur interface{} = map[string]interface{}(res)
		ok := true
		for _, s := range st.segs {
			cm, isMap := cur.(map[string]interface{})
			if !isMap {
				ok = false
				break
			}
			nx, has := cm[s]
			if !has {
				ok = false
				break
			}
			cur = nx
		}
		vAssert(ok, "newmap: every new path exists in the result")
		if len(st.vals) == 1 {
			vAssert(vSame(cur, st.vals[0]), "newmap: a single value is stored as itself")
		} else {
			l, isList := cur.([]interface{})
			if st.wild {
				vAssert(isList && vSameMultiset(l, st.vals), "newmap: several values are stored as a list")
			} else {
				vAssert(isList && vSameList(l, st.vals), "newmap: several values are stored as a list in order")
			}
		}
		entries++
		vCover("stored")
	}
	// nothing else: the maps created along the new paths hold only what was requested
	vAssert(vCountNewEntries(res, stored) == 0, "newmap: the result contains nothing but the requested paths")
	if len(stored) == 0 {
		vAssert(len(res) == 0, "newmap: old paths that yield nothing are skipped")
		vCover("skipped")
	}
}

// vCountNewEntries counts entries of the result that lie on no requested new path.
func vCountNewEntries(res Map, stored []vStored) int {
	extra := 0
	var walk func(cur map[string]interface{}, prefix []string)
	walk = func(cur map[string]interface{}, prefix []string) {
		for k, v := range cur {
			p := append(append([]string{}, prefix...), k)
			onPath, terminal := false, false
			for _, st := range stored {
				if vIsPrefix(p, st.segs) {
					onPath = true
					if len(p) == len(st.segs) {
						terminal = true
					}
				}
			}
			if !onPath {
				extra++
				continue
			}
			if !terminal {
				if cm, ok := v.(map[string]interface{}); ok {
					walk(cm, p)
				} else {
					extra++
				}
			}
		}
	}
	walk(map[string]interface{}(res), nil)
	return extra
}

func H_C12_newmap() {
	vC12(vSpec{Depth: vP("depth", 2, 2), Width: vP("width", 2, 2), Kinds: "mlsn", KeyAlpha: "ab", KeyMin: 1, KeyMax: 1, StrAlpha: "x", StrMax: 0, NoListInList: true}, vP("pairs", 1, 2), false, true, 1)
}

// overlapping new paths: only the receiver's integrity is claimed
func H_C12_overlap() {
	wild := vP("wild", 0, 1) == 1
	idx := -1
	if wild {
		idx = 1
	}
	vC12(vSpec{Depth: vP("depth", 2, 2), Width: vP("width", 2, 2), Kinds: "mls", KeyAlpha: "ab", KeyMin: 1, KeyMax: 1, StrAlpha: "x", StrMax: 0, NoListInList: true}, vP("pairs", 2, 2), true, wild, idx)
}

// a later new path that runs through a projected value down into a list of the receiver
func H_C12_overlap_deep() {
	vNewPathMax = 3
	vC12(vSpec{Depth: 4, Width: 1, Kinds: "mls", KeyAlpha: "ab", KeyMin: 1, KeyMax: 1, StrAlpha: "x", StrMax: 0, NoListInList: true, NoEmptyList: true}, 2, true, false, -1)
	vNewPathMax = 2
}

func H_C12_malformed() {
	m := vNondetMap(vSpec{Depth: 2, Width: 2, Kinds: "msn", KeyAlpha: "ab", KeyMin: 1, KeyMax: 1, StrAlpha: "x", StrMax: 0})
	a := vNondetString(1, 1, "ab")
	b := vNondetString(1, 1, "nm")
	var bad string
	switch vChoose(6) {
	case 0:
		bad = a + ":"
	case 1:
		bad = ":" + b
	case 2:
		bad = a + ":" + b + ":" + b
	case 3:
		bad = a + ":" + b + ".*"
	case 4:
		bad = a + ":" + b + "[0]"
	default:
		bad = ":"
	}
	pairs := []string{bad}
	if vChoose(2) == 1 {
		pairs = []string{a + ":" + b, bad} // a good pair first
	}
	mark := vMark(m)
	_, err := Map(m).NewMap(pairs...)
	vAssert(err != nil, "newmap: a malformed pair is rejected with an error")
	vAssertUnchangedSince(mark, "newmap: the receiver is never modified (error return)")
	vCover("malformed")
}

// keys and new names with leading or trailing blanks are taken literally
func H_C12_blank_keys() {
	k1 := vNondetString(1, 2, "a ")
	k2 := vNondetString(1, 2, "a ")
	vAssume(k1 != k2)
	m := map[string]interface{}{k1: "1", k2: "2"}
	nn := vNondetString(1, 2, "n ")
	old := []string{k1, k2, "a"}[vChoose(3)]
	mark := vMark(m)
	res, err := Map(m).NewMap(old + ":" + nn)
	vAssert(err == nil, "blank keys: a well-formed pair is accepted")
	vAssertUnchangedSince(mark, "blank keys: the receiver is never modified")
	want, has := m[old]
	if has {
		got, ok := res[nn]
		vAssert(ok && vSame(got, want) && len(res) == 1, "blank keys: the value of exactly the old key is stored under exactly the new name")
		vCover("found")
	} else {
		vAssert(len(res) == 0, "blank keys: an old key that does not exist is skipped")
		vCover("skipped")
	}
}
