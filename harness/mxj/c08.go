package mxj

import "strings"

func init() {
	vHarnesses["H_C08_keys"] = H_C08_keys
	vHarnesses["H_C08_keys_deep"] = H_C08_keys_deep
	vHarnesses["H_C08_keys_fan"] = H_C08_keys_fan
	vHarnesses["H_C08_subkeys"] = H_C08_subkeys
	vHarnesses["H_C08_subkeys_num"] = H_C08_subkeys_num
	vHarnesses["H_C08_subkeys_mixed"] = H_C08_subkeys_mixed
	vHarnesses["H_C08_shortest"] = H_C08_shortest
}

// ---- reference: Appendix A.3 (key search) ----

type vCrumb struct {
	path string
	node interface{}
}

// refReachable lists every map reachable from m through map values and list members,
// with the dot path of map keys leading to it (lists are transparent).
func refReachable(m map[string]interface{}) []vCrumb {
	var out []vCrumb
	work := []vCrumb{{"", m}}
	for len(work) > 0 {
		c := work[0]
		work = work[1:]
		switch n := c.node.(type) {
		case map[string]interface{}:
			out = append(out, c)
			for k, v := range n {
				p := k
				if c.path != "" {
					p = c.path + "." + k
				}
				work = append(work, vCrumb{p, v})
			}
		case []interface{}:
			for _, v := range n {
				work = append(work, vCrumb{c.path, v})
			}
		}
	}
	return out
}

func refEmit(out []interface{}, v interface{}, conds []vCond) []interface{} {
	switch c := v.(type) {
	case []interface{}:
		for _, mem := range c {
			if len(conds) == 0 || refPred(mem, conds) {
				out = append(out, mem)
			}
		}
	case map[string]interface{}:
		if len(conds) == 0 || refPred(c, conds) {
			out = append(out, v)
		}
	default:
		if len(conds) == 0 {
			out = append(out, v)
		}
	}
	return out
}

func refValuesForKey(k string, m map[string]interface{}, conds []vCond) []interface{} {
	var out []interface{}
	for _, c := range refReachable(m) {
		x := c.node.(map[string]interface{})
		if k == "*" {
			for _, v := range x {
				out = refEmit(out, v, conds)
			}
		} else if v, ok := x[k]; ok {
			out = refEmit(out, v, conds)
		}
	}
	return out
}

func refPathsForKey(k string, m map[string]interface{}) []string {
	var out []string
	for _, c := range refReachable(m) {
		x := c.node.(map[string]interface{})
		if _, ok := x[k]; ok {
			p := k
			if c.path != "" {
				p = c.path + "." + k
			}
			dup := false
			for _, q := range out {
				if q == p {
					dup = true
				}
			}
			if !dup {
				out = append(out, p)
			}
		}
	}
	return out
}

// ---- reference: Appendix A.2 (sub-key predicate) ----

type vCond struct {
	neg  bool
	name string
	wild bool
	want interface{} // string or bool
}

func refPred(v interface{}, conds []vCond) bool {
	mv, ok := v.(map[string]interface{})
	if !ok {
		return false
	}
	for _, c := range conds {
		have, present := mv[c.name]
		switch {
		case c.wild && !c.neg:
			if !present {
				return false
			}
		case c.wild && c.neg:
			if present {
				return false
			}
		case !c.neg:
			if !present || !vSame(have, c.want) {
				return false
			}
		default:
			// negated value condition: present with a different value
			if !present || vSame(have, c.want) {
				return false
			}
		}
	}
	return true
}

// vNondetCond draws one sub-key spec and its meaning. ambiguous reports the region the
// statement leaves open (negated value condition on an absent name) - the caller
// excludes Maps that hit it.
func vNondetCond(sep string) (spec string, c vCond) {
	c.name = vNondetString(1, 1, "ab")
	c.neg = vChoose(2) == 1
	spec = c.name
	if c.neg {
		spec = "!" + spec
	}
	form := 0
	if vP("forms", 0, 1) == 1 {
		form = vChoose(4)
	} else {
		form = []int{0, 2, 3}[vChoose(3)]
	}
	switch form {
	case 0: // name:value
		v := vNondetString(vP("strmin", 1, 0), 1, "xy")
		c.want = v
		spec += sep + v
	case 1: // name:value:string-ish
		v := vNondetString(0, 1, "xy")
		c.want = v
		spec += sep + v + sep + []string{"string", "char", "text"}[vChoose(3)]
	case 2: // name:*
		c.wild = true
		spec += sep + "*"
	default: // bool
		b := vChoose(2) == 1
		c.want = b
		lit := []string{"false", "0", "F"}
		if b {
			lit = []string{"true", "1", "T"}
		}
		if vP("forms", 0, 1) == 1 {
			lit = append(lit, []string{"f", "FALSE", "False"}...)
			if b {
				lit = append(lit[:3], []string{"t", "TRUE", "True"}...)
			}
		}
		spec += sep + lit[vChoose(len(lit))] + sep + []string{"bool", "boolean"}[vChoose(2)]
	}
	return spec, c
}

func refFilter(vals []interface{}, conds []vCond) []interface{} {
	var out []interface{}
	for _, v := range vals {
		if refPred(v, conds) {
			out = append(out, v)
		}
	}
	return out
}

// ambiguousC08: some reachable value is a map that lacks the name of a negated value condition.
func vAmbiguousPred(vals []interface{}, conds []vCond) bool {
	for _, v := range vals {
		mv, ok := v.(map[string]interface{})
		if !ok {
			continue
		}
		for _, c := range conds {
			if c.neg && !c.wild {
				if _, present := mv[c.name]; !present {
					return true
				}
			}
		}
	}
	return false
}

func vSegCount(p string) int { return len(strings.Split(p, ".")) }

func vC08keys(spec vSpec, relation bool) {
	m := vNondetMap(spec)
	k := "*"
	if vChoose(2) == 0 {
		k = vNondetString(1, 1, "ab")
	}
	want := refValuesForKey(k, m, nil)
	mark := vMark(m)
	got, err := Map(m).ValuesForKey(k)
	vAssert(err == nil, "keys: no error")
	vAssert(vSameMultiset(got, want), "keys: ValuesForKey returns every value stored under the key at any depth and nothing else")
	first, ferr := Map(m).ValueForKey(k)
	if len(want) == 0 {
		vAssert(ferr == KeyNotExistError, "keys: ValueForKey reports KeyNotExistError when nothing matches")
	} else {
		vCover("found")
		vAssert(ferr == nil, "keys: ValueForKey finds a value when ValuesForKey does")
		isOne := false
		for _, g := range got {
			if vSame(first, g) {
				isOne = true
			}
		}
		vAssert(isOne, "keys: ValueForKey returns one of the values of ValuesForKey")
	}
	if k != "*" {
		vCover("named")
		wantPaths := refPathsForKey(k, m)
		paths := Map(m).PathsForKey(k)
		vAssert(len(paths) == len(wantPaths), "paths: PathsForKey returns exactly the distinct dot-paths ending in the key (count)")
		for _, p := range paths {
			ok := false
			for _, q := range wantPaths {
				if p == q {
					ok = true
				}
			}
			vAssert(ok, "paths: every returned path ends in the key at a map that has it")
		}
		for i := range paths {
			for j := i + 1; j < len(paths); j++ {
				vAssert(paths[i] != paths[j], "paths: no duplicates")
			}
		}
		sp := Map(m).PathForKeyShortest(k)
		if len(wantPaths) == 0 {
			vAssert(sp == "", "paths: shortest is empty when the key is absent")
		} else {
			in := false
			for _, q := range wantPaths {
				if q == sp {
					in = true
				}
				vAssert(vSegCount(sp) <= vSegCount(q), "paths: shortest path has the minimal number of segments")
			}
			vAssert(in, "paths: shortest path is one of the paths")
		}
		if relation {
			// the values found through those paths are exactly ValuesForKey
			var union []interface{}
			for _, p := range paths {
				vs, perr := Map(m).ValuesForPath(p)
				vAssert(perr == nil, "paths: each path is accepted by ValuesForPath")
				union = append(union, vs...)
			}
			vAssert(vSameMultiset(union, got), "paths: values reached through PathsForKey are exactly ValuesForKey")
			vCover("relation")
		}
	} else {
		vCover("star")
	}
	vAssertUnchangedSince(mark, "keys: receiver untouched")
}

func H_C08_keys() {
	vC08keys(vSpec{Depth: vP("depth", 2, 3), Width: vP("width", 2, 2), Kinds: "mlsn", KeyAlpha: "ab", KeyMin: 1, KeyMax: 1, StrAlpha: "x", StrMax: 0, NoListInList: true}, true)
}

// lists of two members below maps of one entry: the key directly in one member and deeper in another
func H_C08_keys_fan() {
	vC08keys(vSpec{Depth: vP("depth", 4, 5), Width: vP("width", 2, 2), MapWidth: 1, Kinds: "mls", KeyAlpha: "ab", KeyMin: 1, KeyMax: 1, StrAlpha: "x", StrMax: 0, NoListInList: true}, true)
}

func H_C08_keys_deep() {
	d := vP("depth", 4, 6)
	vC08keys(vSpec{Depth: d, Width: 1, Kinds: "mlsn", KeyAlpha: "ab", KeyMin: 1, KeyMax: 1, StrAlpha: "x", StrMax: 0}, false)
}

// H_C08_subkeys: sub-key arguments only filter, with the documented predicate.
func H_C08_subkeys() {
	depth := vP("depth", 2, 3)
	spec := vSpec{Depth: depth, Width: vP("width", 2, 2), Kinds: "mlsb", KeyAlpha: "ab", KeyMin: 1, KeyMax: 1, StrAlpha: "xy", StrMax: 1, StrMin: vP("strmin", 1, 0), NoListInList: true}
	m := vNondetMap(spec)
	sep := vNondetString(1, 1, ":|")
	SetFieldSeparator(sep)
	nc := 1
	if vP("conds", 1, 2) == 2 {
		nc = 1 + vChoose(2)
	}
	var conds []vCond
	var specs []string
	for i := 0; i < nc; i++ {
		s, c := vNondetCond(sep)
		for _, p := range conds {
			vAssume(p.name != c.name) // duplicate names in one call: excluded (A.2)
		}
		conds = append(conds, c)
		specs = append(specs, s)
	}
	mark := vMark(m)
	if vChoose(2) == 0 {
		k := "*"
		if vChoose(2) == 0 {
			k = vNondetString(1, 1, "ab")
		}
		all, _ := Map(m).ValuesForKey(k)
		vAssume(!vAmbiguousPred(all, conds))
		got, err := Map(m).ValuesForKey(k, specs...)
		vAssert(err == nil, "subkeys: well-formed specs give no error (ValuesForKey)")
		vAssert(vSameMultiset(got, refFilter(all, conds)), "subkeys: ValuesForKey with sub-keys is exactly the matching subset of the unfiltered result")
		vCover("forkey")
	} else {
		n := 1 + vChoose(2)
		_, path, _ := vNondetSteps(n, "ab", true, 0)
		all, _ := Map(m).ValuesForPath(path)
		vAssume(!vAmbiguousPred(all, conds))
		got, err := Map(m).ValuesForPath(path, specs...)
		vAssert(err == nil, "subkeys: well-formed specs give no error (ValuesForPath)")
		vAssert(vSameMultiset(got, refFilter(all, conds)), "subkeys: ValuesForPath with sub-keys is exactly the matching subset of the unfiltered result")
		vCover("forpath")
	}
	vAssertUnchangedSince(mark, "subkeys: receiver untouched")
	SetFieldSeparator()
}

// number-typed sub-key values (concrete numerals: exact float64 semantics)
func H_C08_subkeys_num() {
	nums := []string{"0.1", "19.99", "16777217", "2.5", "1e3", "-0.5", "3", "0"}
	vals := []float64{0.1, 19.99, 16777217, 2.5, 1000, -0.5, 3, 0}
	i := vChoose(len(nums))
	j := vChoose(len(nums))
	word := []string{"num", "number", "float", "float64", "numeric"}[vChoose(5)]
	neg := vChoose(2) == 1
	// a third member whose value under the key is not a number at all
	other := []interface{}{"x", "0", false, nil, map[string]interface{}{}}[vChoose(5)]
	m := Map{"r": []interface{}{
		map[string]interface{}{"p": vals[i], "n": "one"},
		map[string]interface{}{"p": vals[j], "n": "two"},
		map[string]interface{}{"p": other, "n": "three"},
	}}
	spec := "p:" + nums[i] + ":" + word
	if neg {
		spec = "!" + spec
	}
	got, err := m.ValuesForKey("r", spec)
	vAssert(err == nil, "subkeys(num): a numeric sub-key spec is accepted")
	want := 0
	for k, v := range []interface{}{vals[i], vals[j], other} {
		f, isF := v.(float64)
		match := isF && f == vals[i]
		if match != neg {
			want++
		}
		_ = k
	}
	vAssert(len(got) == want, "subkeys(num): exactly the members whose number equals (or, negated, differs from) the sub-key value are returned")
	got2, err2 := m.ValuesForPath("r", spec)
	vAssert(err2 == nil && len(got2) == want, "subkeys(num): ValuesForPath filters with the same predicate")
	vCover("num")
}

// two conditions in one call, a negated and a positive one, in both argument orders
// (the engine iterates the condition map in insertion order, so both orders of examination occur)
func H_C08_subkeys_mixed() {
	SetFieldSeparator()
	mk := func() interface{} {
		return map[string]interface{}{"a": vNondetString(1, 1, "xy"), "b": vNondetString(1, 1, "xy")}
	}
	m := Map{"r": []interface{}{mk(), mk(), map[string]interface{}{"a": "x"}}}
	_, c1 := vNondetCond(":")
	_, c2 := vNondetCond(":")
	c1.name, c2.name = "a", "b"
	c1.neg = !c2.neg // one negated, one positive
	spec := func(c vCond) string {
		s := c.name
		if c.neg {
			s = "!" + s
		}
		switch w := c.want.(type) {
		case string:
			if c.wild {
				return s + ":*"
			}
			return s + ":" + w
		case bool:
			if w {
				return s + ":true:bool"
			}
			return s + ":false:bool"
		}
		return s + ":*"
	}
	conds := []vCond{c1, c2}
	specs := []string{spec(c1), spec(c2)}
	if vChoose(2) == 1 {
		specs[0], specs[1] = specs[1], specs[0]
	}
	all, _ := m.ValuesForKey("r")
	vAssume(!vAmbiguousPred(all, conds))
	got, err := m.ValuesForKey("r", specs...)
	got2, err2 := m.ValuesForPath("r", specs...)
	vAssert(err == nil && err2 == nil, "subkeys(mixed): two conditions are accepted")
	want := refFilter(all, conds)
	vAssert(vSameMultiset(got, want), "subkeys(mixed): ValuesForKey returns exactly the members that satisfy every condition, whatever the order in which the conditions are examined")
	vAssert(vSameMultiset(got2, want), "subkeys(mixed): ValuesForPath returns exactly the members that satisfy every condition")
	vCover("mixed")
}

// PathForKeyShortest minimises the number of segments, not the length of the string
func H_C08_shortest() {
	long := vNondetString(1, 6, "q")
	m := Map{long: map[string]interface{}{"k": "1"}, "a": map[string]interface{}{"b": map[string]interface{}{"k": "2", "c": map[string]interface{}{"k": "3"}}}}
	sp := m.PathForKeyShortest("k")
	vAssert(sp == long+".k", "shortest: the path with the fewest segments is returned, however long its keys are")
	paths := m.PathsForKey("k")
	vAssert(len(paths) == 3, "shortest: all three paths are listed")
	vCover("shortest")
}
